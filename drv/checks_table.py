"""One entry per claimed property: legs (what to run per tier), evidence rule text, manifest text."""

PROP_INDEX = {"C%02d" % i: i for i in range(1, 18)}

CHECKS = {}

CHECKS["C17"] = dict(
    level="exploration",
    engine="pure",
    technique="model-based property test (rapid): generated op sequences vs sorted-slice reference model",
    design_ref="DESIGN.md §7 C17",
    rule=("rapid draws a whole case (maxLevel 1..16, p in {0.01..0.99}, tower RNG seed, 1..70 ops of "
          "Set/Get/LowerBound/Scan/All/Delete/Reset over canonical versioned keys from the trap key pool x versions "
          "{0..12, 99, 100, 2^32, 2^63, 2^64-1}); every result is compared with a sorted slice ordered by an "
          "independently written (user key asc, version desc) order. A case is non-trivial when it held >= 8 live "
          "entries, overwrote an existing versioned key, deleted a middle element and afterwards ran a "
          "LowerBound/Scan crossing the deleted position; distinct = SHA-256 of the canonical case JSON."),
    assumptions=["keys passed to the skiplist are canonical versioned keys user@<decimal uint64>, as every engine caller builds them",
                 "Entry.Version equals the version in the key (as in every engine caller)"],
    level_text=("Generated-sequence search against an exact reference model; both directions are checked (every "
                "model entry is found, nothing else is returned, order identical). Does not establish absence."),
    level_note="trusted: the sorted-slice model and vlib.LessV (independent of types.CompareKeys); tower heights seeded through the verif-only VerifSetRand hook",
    quick=[dict(pkg="pure", test="TestC17", shards=16, checks=1500, timeout=120)],
    thorough=[dict(pkg="pure", test="TestC17", shards=16, checks=60000, timeout=900)],
)

ENGINES = [
    {"name": "pure", "path": "harness/checks/pure", "serves_properties": ["C09", "C10", "C11", "C13", "C16", "C17"],
     "kind_free_text": "component-level rapid properties against reference models / round trips, native fuzz bridge in the thorough tier"},
]

# properties not (yet) claimed; kept current as checks are added
NOT_APPLICABLE = [
    {"property_id": p, "reason": "check under construction in this session; not claimed until it runs green and is sensitivity-tested"}
    for p in ["C%02d" % i for i in range(1, 18)] if p not in CHECKS
]
