"""One entry per claimed property: legs (what to run per tier), evidence rule text, manifest text."""

PROP_INDEX = {"C%02d" % i: i for i in range(1, 18)}

CHECKS = {}

CHECKS["C17"] = dict(
    level="exploration",
    engine="pure",
    technique="model-based property test (rapid): generated op sequences vs sorted-slice reference model",
    design_ref="DESIGN.md §7 C17",
    rule=("rapid draws a whole case (maxLevel 1..16 or {17,32,33,64}, p in {0.01..0.99}, tower RNG seed, 1..70 ops (one case in 20: 300..1500 ops over up to 38 keys and versions 0..60, i.e. hundreds of live entries and tall towers) of "
          "Set/Get/LowerBound/Scan/All/Delete/Reset over canonical versioned keys from the trap key pool x versions "
          "{0..12, 99, 100, 2^32, 2^63, 2^64-1}); every result is compared with a sorted slice ordered by an "
          "independently written (user key asc, version desc) order. A case is non-trivial when it held >= 8 live "
          "entries, overwrote an existing versioned key, deleted a middle element and afterwards ran a "
          "LowerBound/Scan crossing the deleted position; distinct = SHA-256 of the canonical case JSON."),
    assumptions=["keys passed to the skiplist are canonical versioned keys user@<decimal uint64>, as every engine caller builds them",
                 "Entry.Version equals the version in the key (as in every engine caller)"],
    level_text=("Generated-sequence search against an exact reference model; both directions are checked (every "
                "model entry is found, nothing else is returned, order identical). Does not establish absence."),
    level_note="trusted: the sorted-slice model and vlib.LessV (independent of types.CompareKeys); tower heights seeded through the verif-only VerifSetRand hook",
    quick=[dict(pkg="pure", test="TestC17", shards=16, checks=12000, timeout=1200)],
    thorough=[dict(pkg="pure", test="TestC17", shards=16, checks=60000, timeout=1800),
              dict(kind="fuzz", pkg="pure", fuzz="FuzzC17", test="TestC17", fuzztime=90)],
)

CHECKS["C16"] = dict(
    level="exploration",
    engine="pure",
    technique="property-based test (rapid): generated entry sets, membership oracle (every member must be reported present)",
    design_ref="DESIGN.md §7 C16",
    rule=("rapid draws an entry set: 0..12 explicit keys (trap pool, arbitrary bytes, unicode) plus 0..160000 procedurally "
          "expanded binary keys (size classes 1 / 2-10 / 11-1000 / 1000-20000 / one case in 100: 60000-160000, what a default 4 MiB memtable flushes; explicit keys up to 70000 bytes), 1..7 versions per key; the filter is built "
          "with filter.Build over versioned entries (queried through ParseKey of a versioned probe, as the engine does) "
          "or with filter.New(n,p)+Add for n in 1..100000 and p in (0,1) incl. 1e-9 and 0.999999; every member must be "
          "contained. False-positive rate is not judged. Non-trivial: >= 2 distinct user keys of which >= 1 contains "
          "'@' or a non-UTF-8 byte; distinct = SHA-256 of the case JSON. Filters rebuilt by recovery are covered by the "
          "table-level leg (TestC16Levels: after every flush, compaction and recovery of generated level-manager histories every key a table physically holds must pass that table's filter)."),
    assumptions=["filter.New is called with n >= 1 and 0 < p < 1 (it panics otherwise by design)",
                 "sets above 160000 entries are out of budget"],
    level_text=("Generated-input search with an exact one-directional oracle (no false negative); this is the whole "
                "property, the false-positive rate is deliberately not judged."),
    level_note="trusted: the procedural key expansion (SHA-256 of seed and counter)",
    quick=[dict(pkg="pure", test="TestC16", shards=12, checks=400, timeout=1200),
           dict(pkg="lvl", test="TestC16Levels", shards=4, checks=40, timeout=1200)],
    thorough=[dict(pkg="pure", test="TestC16", shards=16, checks=12000, timeout=1200),
              dict(kind="fuzz", pkg="pure", fuzz="FuzzC16", test="TestC16", fuzztime=60),
              dict(pkg="lvl", test="TestC16Levels", shards=16, checks=160, timeout=14400)],
)

CHECKS["C13"] = dict(
    level="exploration",
    engine="pure",
    technique="stateful property test (rapid) against a begun/finished counter model with a FIFO barrier, plus concurrent oracle-style workload under -race",
    design_ref="DESIGN.md §7 C13",
    rule=("sequential leg: rapid draws 1..60 ops of Begin (non-decreasing indices, repeats), Done (any outstanding index, "
          "out of order), Done-without-Begin on an idle mark, WaitForMark with background / already-cancelled / "
          "later-cancelled contexts, bursts of 101..260 marks from a helper goroutine, piles of 30..300 unfinished Begins of ONE index; after every op a FIFO barrier "
          "(verif-only VerifSync) is passed and DoneUntil must lie in [max(previous, largest finished index below the "
          "smallest unfinished one), smallest unfinished index) (equality only if it stood there when the index began), "
          "waiters whose target is covered must have returned nil, nil returns imply DoneUntil >= t, cancelled waiters "
          "return the context error. concurrent leg (race detector on): 2..8 goroutines take indices under a mutex like "
          "the oracle, finish them later (partly from other goroutines), read DoneUntil while their index is open, "
          "wait for earlier indices (single waiters and crowds of 16..200 waiters on one index, each checking DoneUntil the moment it is released). Non-trivial (sequential): out-of-order completion AND a repeated index with two "
          "outstanding begins AND a waiter released by a later Done; (concurrent): shared indices, strict-bound reads and "
          "waiters all occurred. Liveness verdicts use a 30 s watchdog and convict only if the goroutine dump shows the "
          "waiter parked in select and the consumer idle; otherwise the run is inconclusive."),
    assumptions=["Begin(i) only with i >= DoneUntil and Done without Begin only on an idle mark (how oracle.go and Open use it)"],
    level_text=("Generated-history search against an interval-form reference model (leaves room for other correct "
                "implementations); the concurrent leg samples real schedules and cannot enumerate them."),
    level_note="trusted: the counter model in watermark_test.go; VerifSync only pushes a waiter mark through the existing FIFO channel",
    quick=[dict(pkg="pure", test="TestC13", shards=12, checks=6000, timeout=1200),
           dict(pkg="pure", test="TestC13Conc", race=True, shards=4, checks=500, timeout=1200)],
    thorough=[dict(pkg="pure", test="TestC13", shards=16, checks=40000, timeout=1200),
              dict(kind="fuzz", pkg="pure", fuzz="FuzzC13", test="TestC13", fuzztime=60),
              dict(pkg="pure", test="TestC13Conc", race=True, shards=16, checks=1500, timeout=1200)],
)

CHECKS["C11"] = dict(
    level="exploration",
    engine="pure",
    technique="property-based round-trip and metamorphic (encode-something-else) tests with rapid; concurrent encoder workload under the race detector",
    design_ref="DESIGN.md §7 C11",
    death_is_violation=True,
    rule=("rapid draws one codec case: data block / index block / footer / meta / whole table (table.Build decoded the way "
          "recovery, compaction and lookups read it: footer -> index -> whole data region and block by block) / wal "
          "(1..5 entries per Write, Close+Open in between, then Read) / alias. Entries: keys and values as pattern x "
          "length with length classes {0,1,2,3,7,16,100,255,256,257,1000,4096,65535,65536,65537,70000}, shared prefixes up to 70000 bytes, multi-byte UTF-8 neighbour suffixes (same lead byte, other continuation byte), "
          "binary and empty strings, nil vs empty values, both tombstone flags, versions over the full int64 range; "
          "0..400 entries; block sizes 1..4096 and 1 MiB. Oracles: decode(encode(x)) == x field by field; alias: the bytes an "
          "encoder returned are snapshotted, further encoders/decoders run in the SAME goroutine, the bytes must be "
          "unchanged. A second leg draws key/value lengths in {65536,65537,70000,131072,200000} and, one case in 12, one value of 5/20/40 MiB "
          "followed by small round trips of every codec in the same goroutine (what the codecs keep from a huge buffer). A third leg (race "
          "detector) runs 2..5 goroutines encoding, decoding, building tables and appending to one wal, each verifying "
          "its own round trips and re-decoding a retained earlier result. Non-trivial: >= 2 consecutive entries sharing a "
          "first byte and >= 1 empty/binary key or value (index: >= 2 entries; alias: second encoding at least as long "
          "as the first, so an overwrite is visible; size leg: always); distinct = SHA-256 of the case JSON."),
    assumptions=["the footer magic is read back from a freshly built table rather than hard-coded",
                 "entries of 4 GiB and more are out of reach"],
    level_text=("Generated-input search with exact round-trip oracles plus a deterministic single-goroutine aliasing "
                "relation; the concurrent leg relies on the race detector over executed schedules only."),
    level_note="trusted: the blob expansion and cmpEntries (nil value == empty value); decodeTable mirrors levelManager.recover/fetch",
    quick=[dict(pkg="pure", test="TestC11", shards=14, checks=400, timeout=1200),
           dict(pkg="pure", test="TestC11Size", shards=2, checks=150, timeout=1200),
           dict(pkg="pure", test="TestC11Conc", race=True, shards=6, checks=12, timeout=1200, replay_tries=1)],
    thorough=[dict(pkg="pure", test="TestC11", shards=16, checks=15000, timeout=14400),
              dict(kind="fuzz", pkg="pure", fuzz="FuzzC11", test="TestC11", fuzztime=120),
              dict(pkg="pure", test="TestC11Size", shards=4, checks=3000, timeout=1800),
              dict(pkg="pure", test="TestC11Conc", race=True, shards=16, checks=80, timeout=14400)],
)

_LV_GEN = ("rapid draws a levelManager case: L0TargetNum 1..3, LevelRatio 1..3, DataBlockByteThreshold in "
           "{1,2,10,30,80,200,4096}, a universe of 2..8 trap-pool keys (+ absent keys), 2..20 ops of Flush(batch) / "
           "identical re-flush of an older batch / SetWatermark / CheckAndCompact / Recover. Batches are sorted sets of "
           "versioned entries in commit order (version ranges non-decreasing from batch to batch, a timestamp may straddle "
           "two batches, narrow one/two-key batches so that L1 grows and compactions cascade), 25% tombstones, unique value "
           "tokens, some empty values; only table layouts reachable by flushToL0 + checkAndCompact + recover are produced. One case in 400 is a bulk case: "
           "tables of 8..20 MiB of incompressible data (values compared by length and digest), so that compactions move tens of MiB. ")

CHECKS["C10"] = dict(
    level="exploration",
    engine="lvl",
    technique="differential property test (rapid): real levelManager lookups vs brute-force scan of the tables' contents; exhaustive enumeration of a small universe",
    design_ref="DESIGN.md §7 C10",
    rule=(_LV_GEN + "After every flush, compaction and recovery, for EVERY (key, ts) with key in universe + absent keys and "
          "ts in 0..max+1, Lookup(key, ts) (the production searchLowerBound + same-key filter, through the verif accessor) "
          "must equal the brute-force best (largest version <= ts) over the entries the tables physically hold: same "
          "versioned key, value, tombstone flag, or not-found; before any compaction the tables must hold exactly the "
          "flushed multiset. Non-trivial: >= 2 tables, a table with >= 2 blocks, and a query whose answer lives in a "
          "different table than the first one containing the key. Second leg: the small universe {a, a!, a@1} x four "
          "versions ({1,2,3,4} or {1,2,10,12}: decimal texts that are prefixes of each other) - every subset of the 12 entries x 5 split points into two version-ordered tables x block size {1 entry, "
          "all} x {handles as built, handles rebuilt by Recover} x 2 version sets = 163840 layouts x 54 / 81 queries (9 keys incl. absent ones "
          "before/between/after x ts 0..5 / {0,1,2,3,9,10,11,12,13}) - is ENUMERATED COMPLETELY in both tiers (non-trivial there: two tables, one "
          "entry per block, >= 4 entries). Third leg (TestC10Twin): two levelManagers on two directories are driven concurrently in ONE "
          "process, each judged against its own brute-force oracle (state shared between stores of a process)."),
    assumptions=["table layouts are those reachable from flush batches in commit order (DESIGN.md G1)",
                 "bloom false positives occur naturally at ~1% and are not forced"],
    level_text=("Differential search: the production lookup path against an obviously-correct scan over the same data, "
                "for all queries of each generated layout; the small universe is enumerated exhaustively."),
    level_note="trusted: vlib.Best / vlib.LessV (written independently of types.CompareKeys) and the verif-only accessor, which only delegates to searchLowerBound, flushToL0, recover, fetch",
    death_is_violation=True,
    quick=[dict(pkg="lvl", test="TestC10", shards=16, checks=30, timeout=1200, gomaxprocs=1),
           dict(pkg="lvl", test="TestC10Twin", shards=8, checks=12, timeout=1200, gomaxprocs=4),
           dict(pkg="lvl", test="TestC10Exh", shards=16, checks=1, timeout=1200, gomaxprocs=1, env={"VERIF_EXH": "all", "VERIF_NSHARDS": 16})],
    thorough=[dict(pkg="lvl", test="TestC10", shards=16, checks=120, timeout=14400),
              dict(pkg="lvl", test="TestC10Twin", shards=8, checks=40, timeout=14400, gomaxprocs=4),
              dict(pkg="lvl", test="TestC10Exh", shards=16, checks=1, timeout=1800, gomaxprocs=1, env={"VERIF_EXH": "all", "VERIF_NSHARDS": 16})],
)

CHECKS["C09"] = dict(
    level="exploration",
    engine="lvl",
    technique="metamorphic/differential property test (rapid): lookups before vs after compaction and recovery, anchored on a reference over everything flushed",
    design_ref="DESIGN.md §7 C09",
    rule=(_LV_GEN + "Around every CheckAndCompact and Recover, every (key, ts) with ts in [watermark, max+1] is looked up before "
          "and after; an answer (value or not-found, tombstone == not-found) that agreed with the reference best over ALL "
          "entries ever flushed before the step must still agree after it (queries already wrong before are C10's business "
          "and are counted, not judged). After a compaction every physical entry must be one of the flushed entries, "
          "unchanged. Non-trivial: a compaction really happened (set of table files changed) and either a tombstone "
          "shadowed an older value of a key or the watermark fell strictly between two versions of a key."),
    assumptions=["watermarks are monotone and at most max flushed version + 2 (readMark.DoneUntil never exceeds the last commit timestamp)",
                 "a legitimate drop of bottom-level tombstones would not be reported (tombstone and absent both read as not-found)"],
    level_text=("Generated-layout search with a before/after relation on the production compaction code, driven only "
                "through checkAndCompact (reachable table selections)."),
    level_note="trusted: vlib.Best over the flushed multiset; watermark steering through the stub oracle's readMark (Done + VerifSync)",
    death_is_violation=True,
    quick=[dict(pkg="lvl", test="TestC09", shards=16, checks=260, timeout=1200, gomaxprocs=1)],
    thorough=[dict(pkg="lvl", test="TestC09", shards=16, checks=500, timeout=14400)],
)

_E1_GEN = ("rapid draws a whole Program: Config (SkipListMaxLevel {0,1,2,4,9,12}, SkipListP {0..0.9}, MemtableByteThreshold "
           "{1..700 or default}, ImmutableBuffer 0..4, DataBlockByteThreshold {default,1,20,60,200,4096}, L0TargetNum 1..4, "
           "LevelRatio {1,2,3,10}), 3..10 keys (trap pool + random bytes), tower-height seed, and 10..120 ops: Update/View "
           "closures (1..5 Get/Set/Delete, optionally failing after k calls), explicit Begin(rw|ro)/Get/Set/Delete/Commit/"
           "Discard/re-read over up to 4(+2) simultaneously open transactions, anomaly templates (write skew, lost update, "
           "read-only anomaly) with generated interleaving, FlusherStep(1..4)/FlusherRunToIdle (the background flusher is "
           "held at 4 lock-free gates and advanced only by these ops, so flush/compaction timing is a generated, "
           "replayable dimension), Reopen(cfg') (Close with flushes pending, View/Update on the closed handle, Open with "
           "redrawn sizes and fixed level geometry), misuse calls, full-pool reads. Keys come from the trap pool with sibling-aware draws (pairs that only differ after 64/100 bytes, after a UTF-8 lead byte, around '@'); writes go through Set/Delete or SetEntry; value lengths 0..300 plus, one draw in 150, 5000/70000/140000 bytes (at most three such values per program). Padding bytes of values: one of x, NUL, 0xff, @, newline, 0x80, or incompressible pseudo-random bytes. Rare modes: multi-MiB tables (1 in 80, C01/C02), many tables (150 keys, wide levels with >= 11 tables or - ratio 1/2 - trees more than 10 levels deep; 1 in 400, C01/C02 1 in 200), marathon (up to 70000 commits, 1 in 800), long-lived transaction (C06/C07, 1 in 67: anomaly patterns while a transaction stays open during 40..2700 commits and ends, followed by one more commit, inside the pattern). The interpreter drives the real DB and "
           "the MVCC+SSI reference model side by side from one goroutine (so the model is exact), values are unique tokens "
           "naming their writer. Each check judges only the discrepancy kinds its property owns; others are counted as "
           "foreign. distinct = SHA-256 of the program JSON. ")

def _e1(prop, title, owns, nontriv, q_checks, t_checks, extra_assume=()):
    return dict(
        level="exploration",
        engine="dbsm",
        technique="model-based stateful property test (rapid): generated transaction programs with owned flusher schedule vs MVCC+SSI reference model" + (
            "; recorded history decided by porcupine (transactions as operations)" if prop in ("C05", "C06") else ""),
        design_ref="DESIGN.md §7 " + prop,
        death_is_violation=True,
        rule=_E1_GEN + "Judged here: " + owns + " Non-trivial: " + nontriv,
        assumptions=["one goroutine issues all calls (exact model); concurrent schedules are the business of C12/C15 and the concurrent legs",
                     "64-bit key fingerprints of the <= 10 keys of a program do not collide",
                     "Close is called with no transaction open; after Close only View/Update are called"] + list(extra_assume),
        level_text=title,
        level_note="trusted: the reference model (model.go), the interpreter's bookkeeping, the gate controller (steers only; verdicts never read hook state)",
        quick=[dict(pkg="dbsm", test="Test" + prop, shards=16, checks=q_checks, timeout=1200)] + (
            [dict(pkg="conc", test="Test" + prop + "Conc", race=True, shards=8, checks=8, timeout=1200, gomaxprocs=4)] if prop in ("C05", "C06", "C07") else []) + (
            [dict(pkg="conc", test="Test" + prop + "Stress", shards=6, checks=(4 if prop == "C06" else 2), timeout=1200, gomaxprocs=8, parallel=6)] if prop in ("C05", "C06") else []),
        thorough=[dict(pkg="dbsm", test="Test" + prop, shards=16, checks=t_checks, timeout=14400),
                  dict(pkg="dbsm", test="Test" + prop, shards=16, checks=max(20, t_checks // 5), timeout=14400, env={"VERIF_FREE": "1"}, replay_tries=30)] + (
            [dict(pkg="conc", test="Test" + prop + "Conc", race=True, shards=16, checks=15, timeout=14400, gomaxprocs=4)] if prop in ("C05", "C06", "C07") else []) + (
            [dict(pkg="conc", test="Test" + prop + "Stress", shards=4, checks=5, timeout=14400, gomaxprocs=8, parallel=4)] if prop in ("C05", "C06") else []),
    )

CHECKS["C01"] = _e1("C01", "Generated-history search against an exact model: every read in a fresh transaction must return the latest committed write, at whatever gate the flusher stands.",
    "reads in a transaction whose snapshot is the latest commit (after every commit a fresh View reads the keys just written, every 8th commit and at the end the whole pool, again after the flusher went idle) must equal the model's latest state.",
    "the program read a key whose newest version had left the memtable (its memtable was flushed) AND read a deleted key whose tombstone had been flushed.", 110, 300)
CHECKS["C02"] = _e1("C02", "Generated histories with close/reopen cycles: before/after differential plus model agreement for post-reopen writes.",
    "the full-pool read before Close must equal the full-pool read after Open (differential, independent of the model); fresh reads of keys written after a reopen must return the new data (also after later flushes, compactions, reopens); Open/Close must not fail or panic.",
    "a reopen on a directory that held tables AND a post-reopen overwrite of a pre-reopen key read back after it left the memtable.", 110, 300)
CHECKS["C05"] = _e1("C05", "Generated interleavings with long-lived readers: every Get must equal snapshot-at-Begin overlaid with own writes; the same history is re-decided by porcupine as a split history.",
    "every Get in any live transaction (snapshot fixed at Begin, own buffer on top), re-read after every flusher step; dirty reads; the recorded history's split form (reads at Begin, writes at Commit) must be linearizable.",
    "a transaction read, after its newer version had been flushed and a compaction had happened, a key that another transaction overwrote or deleted after its Begin.", 45, 400)
CHECKS["C06"] = _e1("C06", "Generated interleavings incl. anomaly templates; the history of committed + read-only transactions must have a real-time-respecting serial order (porcupine), cross-checked by the exact model.",
    "porcupine verdict on the history (Unknown = inconclusive, counted), dirty reads.",
    "overlapping read-write transactions with intersecting read/write sets of which at least one was refused (or would have been an anomaly).", 60, 500)
CHECKS["C07"] = _e1("C07", "Exact two-sided oracle for the Commit result in generated interleavings (boundaries: commit right before Begin, buffer reads, absent keys, deletes, rw transactions without writes, long histories).",
    "Commit/Update error vs the model's prediction in both directions (refused iff a store-read key was written by a transaction that committed after the snapshot).",
    "a predicted-and-observed conflict AND a commit that succeeds although a concurrent transaction committed other keys.", 160, 1000)
CHECKS["C08"] = _e1("C08", "Generated abandonment (Discard, conflict, failing Update closure) and misuse, followed by flushes, compactions and restarts; token identity makes leaked writes directly visible.",
    "any read returning a token of a transaction that never committed; misuse calls must return the documented error (any applicable one) and Get not-found; Update must return the closure's own error; View/Update after Close must return ErrDBClosed without running the closure.",
    "an abandoned write set (discard with writes / failed closure after writes) in a program that flushed and then reopened or compacted.", 110, 1200)

_E2_GEN = ("rapid draws a workload (Config with MemtableByteThreshold 60..20000, ImmutableBuffer 0..3, block 1/60/4096, "
           "L0TargetNum 1..2, LevelRatio 1..2 so that flushes and multi-level compactions happen; 6..12 trap-pool keys; 12..45 "
           "transactions of 1..5 Set/Delete (one in eight: 6..30 operations with values up to 5000 bytes, so that one commit is many KiB of wal) with unique value tokens, deletes only of existing keys; 6..36 keys; Close at the end in half "
           "of the cases; a follow-up workload). A child process built with the file-system interposer (go build -overlay on "
           "package os: every mutating os call on the DB directory is seen before it starts and after it returned) runs it "
           "with the real background flusher and, in snapshot mode, stores an image of the directory immediately before EVERY "
           "intercepted operation (= the state a process crash at that instant leaves: every completed operation persisted, "
           "the next one not started) together with the length of the CALL/ACK log at that instant and, per file, the "
           "lengths covered by a completed fsync. Every image is recovered by Open in a FRESH child process. One workload in 20 carries one value of 1/5/9 MiB (values travel as digests); value lengths are classes or (one in three) any length 0..800, and one workload in eight sweeps 32..64 consecutive lengths, so that wal record and block sizes take every residue. Every third image - and every image of a crashed recovery - is recovered, the handle given up without a commit or Close (a process that dies right after recovery), and recovered again (up to three recoveries in a row) before it is judged by the same oracle. ")

def _e2(prop, text, judged, nontriv, q, th):
    return dict(
        level="fault_enumeration",
        engine="crash",
        technique="fault injection by file-system interposition (os overlay): crash image before every fs operation of generated workloads, recovery in a fresh process, durability oracle over the ack log",
        design_ref="DESIGN.md §5, §7 " + prop,
        rule=_E2_GEN + judged + " Non-trivial: " + nontriv + " distinct = (workload hash, crash index, variant).",
        assumptions=["process-crash model: every completed file-system operation persists, directory operations are durable and ordered",
                     "one committing goroutine (acks are totally ordered); concurrent committers are covered by C12",
                     "crash points are exhaustive per executed run; the interleaving of foreground and flusher operations varies from run to run"],
        level_text=text,
        level_note="trusted: the os overlay (11 wrapped entry points, each asserted to patch exactly once), the ack log written with raw write(2), crashlib's allowed-value oracle",
        quick=[dict(pkg="crash", test="Test" + prop, shards=16, checks=q, timeout=1800, vworker=True, shrinktime="5s")],
        thorough=[dict(pkg="crash", test="Test" + prop, shards=16, checks=th, timeout=14400, vworker=True, shrinktime="5s")],
    )

CHECKS["C03"] = _e2("C03", "Systematic crash injection: all crash points of every generated run, crash sequences (crash again at every operation of a recovery), real SIGKILL cross-checks.",
    "Judged: (a) Open returns nil, no panic, exit 0; (b) every key reads the value of the last ACKed transaction that wrote it, or that of the transaction in flight at the crash; (c) nothing else; (d) on every n-th image the recovered store runs the follow-up workload, Closes, is reopened and must show the follow-up writes on top of what it showed after recovery. A generated subset of images is recovered under the interposer again and every image of THAT recovery is judged too (crash sequences); a generated sample of crash indices is re-run with a real SIGKILL.",
    "the image still holds a wal (acknowledged data not yet in a table) or the crash fell into flush / compaction / recovery / Close.", 4, 6)
CHECKS["C04"] = _e2("C04", "Crash injection with multi-key transactions; all-or-nothing oracle on the transaction in flight at the crash.",
    "Judged: for the transaction whose Commit had been called but had not returned at the crash, the keys on which its effect is observable read its new value on all of them or on none (workloads are biased to 2..5-key transactions; thresholds make commits straddle memtable rotations).",
    "the crash fell while the Commit of a transaction that wrote >= 2 keys was in progress (any goroutine's operation between its CALL and ACK).", 6, 20)
CHECKS["C14"] = _e2("C14", "Crash injection plus loss of unsynced tails: every image whose files have bytes beyond their last completed fsync is additionally cut.",
    "Judged: the C03 oracles (a)(b)(c)(d) on images in which files with bytes written after their last completed fsync were truncated: to the synced length (all such files at once), and per file to synced+{0,1,7,8,9}, written-{1,2,8,9}, the middle and 8 drawn positions (thorough: every length when the tail is <= 48 bytes, all 8 drawn positions otherwise). A failure counts for C14 only if the uncut image passes.",
    "at least one byte was cut (always, by construction).", 2, 3)

_E3_GEN = ("rapid draws a workload: 2..8 goroutines x 4..14 (or 5x as many) transactions on 3..6 hot trap-pool keys, scripts "
           "derived from a drawn seed (Begin/Get/Set/Delete/Commit/Discard or Update/View closures, read-only share, retry on "
           "conflict), MemtableByteThreshold 50..400, ImmutableBuffer 0..3, L0TargetNum 1..2 so that rotation, flush and "
           "compaction overlap the foreground continuously. The test binary is built with the race detector "
           "(halt_on_error); every transaction is recorded with call/return stamps, store reads, writes and outcome. ")

CHECKS["C12"] = dict(
    level="exploration",
    engine="conc",
    technique="randomized concurrent workloads under the Go race detector, with recorded histories decided by porcupine (transactions as operations) and a watchdog",
    design_ref="DESIGN.md §7 C12",
    death_is_violation=True,
    rule=(_E3_GEN + "Judged: no race report, no panic (process death is a violation, the input is the case file written "
          "before the run) and no deadlock among the concurrent calls (goroutine-dump criterion: nothing of the engine or workload can run), reads of own writes, and the history: split form (reads at Begin, writes at Commit) linearizable "
          "(C05), committed + read-only transactions serializable in real-time order (C06), no refusal without an overlapping "
          "committed writer of a read key (C07, one-sided); histories over 130 transactions are only checked for over-aborts "
          "(counted). Non-trivial: >= 5 rotations and >= 2 flushes happened while >= 2 goroutines committed >= 5 transactions; "
          "distinct = SHA-256 of the workload JSON."),
    assumptions=["the race detector and the history oracles see executed schedules only; nothing enumerates interleavings",
                 "each transaction is used by one goroutine"],
    level_text="Monitors (race detector, panic, watchdog) plus history oracles over sampled real schedules; the schedule is not owned here.",
    level_note="trusted: Go race detector, porcupine, the history recording in conc_test.go",
    quick=[dict(pkg="conc", test="TestC12Conc", race=True, shards=8, checks=10, timeout=1800, gomaxprocs=4, parallel=8),
           dict(pkg="conc", test="TestC12Stress", shards=6, checks=2, timeout=1200, gomaxprocs=8, parallel=6)],
    thorough=[dict(pkg="conc", test="TestC12Conc", race=True, shards=16, checks=20, timeout=14400, gomaxprocs=4),
              dict(pkg="conc", test="TestC12Stress", shards=4, checks=5, timeout=14400, gomaxprocs=8, parallel=4)],
)

CHECKS["C15"] = dict(
    level="exploration",
    engine="conc",
    technique="generated gated scenarios (flusher held at a verifhook gate so that the queue fills and a committer parks) and free-running concurrent workloads (no race detector here: C12 has it), watchdog with goroutine-dump deadlock criterion",
    design_ref="DESIGN.md §7 C15",
    death_is_violation=True,
    rule=("gated leg: rapid draws ImmutableBuffer 0..3, MemtableByteThreshold 1..200, 1..3 writers x 3..14 blind multi-key "
          "commits, 1..4 readers, late writers, a release pattern; the flusher is held at its first gate until the writers "
          "stall on the full queue (a committer parked in the queue send while holding the write lock), readers (Begin must "
          "wait for the commit in progress) and late writers are started, the flusher is released step-wise and then for "
          "good; every call must return; then the flusher is held again, one more memtable is made pending, Close is called "
          "and the flusher released; after Close returned the directory listing must not change any more, Open must "
          "succeed at once and every key must read its last acknowledged value. free-running leg: the C12 workloads followed "
          "by final read, Close, immediate reopen, identical read. A call that has not returned after 30/60 s is a violation "
          "only if the goroutine dump shows every engine/workload goroutine parked in chan send/receive, select, mutex, "
          "cond or waitgroup with no timer involved; otherwise the run is inconclusive. Non-trivial (gated): a committer "
          "was parked on a full (or zero-length) queue while a reader waited in Begin, and Close was called with a flush "
          "pending when requested."),
    assumptions=["Close is called once, with no transaction open and no call in flight"],
    level_text="Deterministically constructed blocking situations (owned flusher) plus sampled free schedules; liveness is decided by a no-runnable-goroutine criterion, not by time.",
    level_note="trusted: the goroutine-dump parser (deadlocked()), the verifhook gate (steers only)",
    quick=[dict(pkg="conc", test="TestC15", shards=12, checks=110, timeout=1800, gomaxprocs=4),
           dict(pkg="conc", test="TestC15Conc", shards=8, checks=40, timeout=1800, gomaxprocs=4)],
    thorough=[dict(pkg="conc", test="TestC15", shards=16, checks=1500, timeout=14400, gomaxprocs=4),
              dict(pkg="conc", test="TestC15Conc", shards=16, checks=400, timeout=14400, gomaxprocs=4)],
)

ENGINES = [
    {"name": "conc", "path": "harness/checks/conc", "serves_properties": ["C12", "C15", "C05", "C06", "C07"],
     "kind_free_text": "real goroutines on one handle in a -race build, free-running flusher, history recording + porcupine, watchdog with goroutine-dump deadlock criterion, gated blocking scenarios"},
    {"name": "crash", "path": "harness/checks/crash (+ harness/cmd/vworker, harness/fsx, drv/fsoverlay.py)", "serves_properties": ["C03", "C04", "C14"],
     "kind_free_text": "crash-point enumeration: child worker under a file-system interposer (os overlay), snapshot image before every fs operation, recovery in fresh processes, ack-log durability oracle, unsynced-tail truncation"},
    {"name": "dbsm", "path": "harness/checks/dbsm", "serves_properties": ["C01", "C02", "C05", "C06", "C07", "C08"],
     "kind_free_text": "deterministic in-process DB state machine: generated Program interpreted against the real DB and the MVCC+SSI model, flusher held at verifhook gates, porcupine as history oracle"},
    {"name": "lvl", "path": "harness/checks/lvl", "serves_properties": ["C09", "C10", "C16"],
     "kind_free_text": "real levelManager over a scratch directory through the verif-only accessor; generated flush/compact/recover sequences, brute-force and before/after oracles, exhaustive small universe"},
    {"name": "pure", "path": "harness/checks/pure", "serves_properties": ["C11", "C13", "C16", "C17"],
     "kind_free_text": "component-level rapid properties against reference models / round trips, native fuzz bridge in the thorough tier"},
]

# properties not (yet) claimed; kept current as checks are added
NOT_APPLICABLE = [
    {"property_id": p, "reason": "check under construction in this session; not claimed until it runs green and is sensitivity-tested"}
    for p in ["C%02d" % i for i in range(1, 18)] if p not in CHECKS
]
