#!/usr/bin/env python3
"""Writes /verif/MANIFEST.json from drv/checks_table.py (run after editing the table)."""
import json
import os
import subprocess
import sys

sys.path.insert(0, os.path.dirname(os.path.abspath(__file__)))
from checks_table import CHECKS, NOT_APPLICABLE, ENGINES  # noqa: E402

VERIF = os.path.dirname(os.path.dirname(os.path.abspath(__file__)))


def hook_commits():
    try:
        out = subprocess.run(["git", "-C", "/repo", "log", "--format=%H %s"], capture_output=True, text=True).stdout
    except Exception:
        return []
    return [l.split()[0] for l in out.splitlines() if l.split(" ", 1)[1].startswith("verif hooks:")]


def main():
    checks = []
    for pid in sorted(CHECKS):
        s = CHECKS[pid]
        c = {
            "property_id": pid,
            "quick_cmd": "python3 run.py check %s --tier quick" % pid,
            "thorough_cmd": "python3 run.py check %s --tier thorough" % pid,
            "evidence_file": "/verif/evidence/%s.json" % pid,
            "replay_cmd_template": "python3 run.py replay %s {path}" % pid,
            "engine": s["engine"],
            "level_claimed": {"category": s["level"], "text": s["level_text"], "design_ref": s["design_ref"]},
            "level_note": s["level_note"],
            "technique": s["technique"],
        }
        checks.append(c)
    m = {
        "version": 1,
        "setup_cmd": "python3 run.py setup",
        "hooks": {
            "guard": "verif",
            "enable": "go build tag: the driver builds the harness module (replace originium => /repo) with `-tags verif`; "
                      "file-system interposition additionally uses `-overlay` on package os (no repository source involved)",
            "baseline_off_cmd": "cd /repo && env -u GOTOOLCHAIN -u GOSUMDB GOFLAGS=-mod=mod GOPROXY=off go test -json -vet=off -count=1 -timeout 25m ./...",
            "source_commits": hook_commits(),
            "add_only": True,
        },
        "engines": ENGINES,
        "checks": checks,
        "not_applicable": NOT_APPLICABLE,
        "notes": "All checks are property-based tests / fuzzers driven by /verif/run.py; see DESIGN.md. "
                 "Exit 2 means inconclusive (harness problem or time budget), never a violation. "
                 "Recorded and repaired defects are listed in /verif/known_findings.json.",
    }
    with open(os.path.join(VERIF, "MANIFEST.json"), "w") as fh:
        json.dump(m, fh, indent=1)
    print("wrote MANIFEST.json with %d checks, %d not_applicable" % (len(checks), len(NOT_APPLICABLE)))


if __name__ == "__main__":
    main()
