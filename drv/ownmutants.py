#!/usr/bin/env python3
"""Runs the planted changes of seeded/own/mutants.json (scratch worktrees, never /repo) and writes
seeded/own/RESULTS.md + one patch file per change. Usage: ownmutants.py [name ...]"""
import json
import os
import subprocess
import sys

VERIF = os.path.dirname(os.path.dirname(os.path.abspath(__file__)))
OWN = os.path.join(VERIF, "seeded", "own")


def main():
    muts = json.load(open(os.path.join(OWN, "mutants.json")))
    only = set(sys.argv[1:])
    rows = []
    for m in muts:
        if only and m["name"] not in only:
            continue
        if "revert" in m:
            cmd = ["--revert", m["revert"]]
            d = subprocess.run(["git", "-C", "/repo", "show", m["revert"]], capture_output=True, text=True).stdout
            open(os.path.join(OWN, m["name"] + ".reverse.diff"), "w").write(d)
        else:
            cmd = [m["file"], m["old"], m["new"]]
        r = subprocess.run([sys.executable, os.path.join(VERIF, "drv", "mut.py"), "--baseline"] + cmd + ["--"] + m["props"],
                           cwd=VERIF, capture_output=True, text=True)
        res = {}
        suite = "?"
        for line in r.stdout.splitlines():
            f = line.split()
            if line.startswith("baseline suite with mutant"):
                suite = "pass" if "rc=0" in line else "fail"
            if len(f) >= 2 and f[1].startswith("rc="):
                res[f[0]] = int(f[1][3:])
        verdict = ", ".join("%s:%s" % (p, {0: "quiet", 1: "VIOLATION", 2: "inconclusive"}.get(res.get(p), "?")) for p in m["props"])
        rows.append((m["name"], m.get("file", "revert " + m.get("revert", "")), suite, m["expect"], verdict))
        print(rows[-1], flush=True)
    with open(os.path.join(OWN, "RESULTS.md"), "a") as fh:
        for r in rows:
            fh.write("| %s | %s | %s | %s | %s |\n" % r)


if __name__ == "__main__":
    main()
