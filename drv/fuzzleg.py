"""Native `go test -fuzz` leg (thorough tier only): the same rapid property handed to Go's
coverage-guided fuzzer through rapid.MakeFuzz. Cannot be pinned to a seed; the saved failing
input (and the violation file the property itself writes) is the reproducible unit."""
import glob
import json
import os
import subprocess
import time

import common


def run(prop, leg_no, leg, wd, binary):
    od = os.path.join(wd, "leg%d" % leg_no, "fuzz")
    os.makedirs(os.path.join(od, "scratch"), exist_ok=True)
    env = common.go_env({
        "VERIF_OUT": od, "VERIF_PROP": prop, "VERIF_FUZZ": "1", "VERIF_TIER": "thorough",
        "VERIF_SCRATCH": os.path.join(od, "scratch"),
    })
    env.pop("VERIF_REPLAY", None)
    secs = int(leg.get("fuzztime", 60))
    cmd = [binary, "-test.run", "^$", "-test.fuzz", "^%s$" % leg["fuzz"], "-test.fuzztime", "%ds" % secs,
           "-test.fuzzcachedir", os.path.join(od, "fuzzcache"), "-test.parallel", str(leg.get("workers", common.NCPU)),
           "-test.timeout", "%ds" % (secs + 300)]
    lp = os.path.join(od, "log.txt")
    t0 = time.time()
    with open(lp, "w") as lf:
        p = subprocess.Popen(cmd, cwd=od, env=env, stdout=lf, stderr=subprocess.STDOUT)
        try:
            rc = p.wait(timeout=secs + 360)
        except subprocess.TimeoutExpired:
            p.kill()
            rc = -9
    results, inconclusive = [], []
    rerun_ok = 0
    if rc == 1 and not glob.glob(os.path.join(od, "violation_%s_*.json" % prop)):
        # A worker was lost without the property reporting anything. Go's fuzzer kills a worker
        # whose single input runs longer than 10 s (a loaded machine and a large generated case are
        # enough). Re-run the saved input through the property, outside the fuzzer: only if it
        # fails there as well is there anything to report.
        try:
            txt = open(lp, "rb").read().decode("utf-8", "replace")
        except Exception:
            txt = ""
        ids = [ln.split("testdata/fuzz/")[1].strip() for ln in txt.splitlines() if "Failing input written to testdata/fuzz/" in ln]
        if ids:
            with open(lp, "a") as lf:
                p2 = subprocess.Popen([binary, "-test.run", "^%s$" % ids[0], "-test.timeout", "1200s"], cwd=od, env=env,
                                      stdout=lf, stderr=subprocess.STDOUT)
                try:
                    rc2 = p2.wait(timeout=1300)
                except subprocess.TimeoutExpired:
                    p2.kill()
                    rc2 = -9
            if rc2 == 0:
                rerun_ok = 1
                rc = 0
    datas = []
    for f in sorted(glob.glob(os.path.join(od, "shard_%s_*.json" % prop))):
        try:
            datas.append(json.load(open(f)))
        except Exception:
            pass
    viols = []
    for f in sorted(glob.glob(os.path.join(od, "violation_%s_*.json" % prop))):
        try:
            viols.append(json.load(open(f)))
        except Exception:
            pass
    try:
        tail = open(lp, "rb").read()[-6000:].decode("utf-8", "replace")
    except Exception:
        tail = ""
    execs = 0
    for line in tail.splitlines():
        if "execs:" in line:
            try:
                execs = int(line.split("execs:")[1].split()[0])
            except Exception:
                pass
    for n, d in enumerate(datas):
        d.setdefault("counters", {})
        results.append({"shard": 5000 + n, "rc": 0, "timed_out": False, "outdir": od, "violations": [], "data": d,
                        "log_tail": "", "current_case": None})
    r = {"shard": 4999, "rc": rc if viols or rc in (0, 1) else rc, "timed_out": rc == -9, "outdir": od, "violations": viols,
         "data": {"evaluations": 0, "nontrivial_hashes": [], "classes": {}, "counters": {"native_fuzz_execs_" + leg["fuzz"]: execs,
                  "native_fuzz_seconds_" + leg["fuzz"]: int(time.time() - t0),
                  "native_fuzz_worker_lost_input_passed_on_rerun_" + leg["fuzz"]: rerun_ok}, "samples": [], "known_findings": {}, "complete": True},
         "log_tail": tail, "current_case": None}
    if rc == 1 and not viols:
        # the fuzzer reported a failing input but the property wrote no violation file: engine crash inside a worker
        inconclusive.append("native fuzzing of %s ended with a failure without a violation file: %s" % (leg["fuzz"], tail[-1500:]))
        r["rc"] = 0
    elif rc == 1:
        r["rc"] = 0  # the violation files carry the verdict
    results.append(r)
    return results, inconclusive
