#!/usr/bin/env python3
"""Confirm a seeded change in a fresh scratch worktree and run checks against it.

  seedcheck.py <name> <mutant_dir> <demo_pkg_dir> <demo_run_regex> -- <PROP[:tier]> ...

mutant_dir holds patch.diff, demo *_test.go file(s), README.md (written by a sub-agent).
Steps: fresh worktree of /repo HEAD under /tmp; existing suite with the patch; demo with
and without the patch; copy to /verif/seeded/<name>/; run the listed checks with the patch
applied to /repo (reverted afterwards); write meta.json.
"""
import glob
import json
import os
import shutil
import subprocess
import sys

sys.path.insert(0, os.path.dirname(os.path.abspath(__file__)))
import common  # noqa: E402

VERIF = common.VERIF
REPO = "/repo"


def sh(cmd, cwd, timeout=900):
    p = subprocess.run(cmd, cwd=cwd, env=common.go_env(), capture_output=True, timeout=timeout)
    return p.returncode, (p.stdout + p.stderr).decode("utf-8", "replace")


def main():
    a = sys.argv[1:]
    sep = a.index("--")
    name, mdir, demo_pkg, demo_re = a[:sep]
    props = a[sep + 1:]
    wt = "/tmp/seedcheck-" + name
    subprocess.run(["git", "-C", REPO, "worktree", "remove", "--force", wt], capture_output=True)
    shutil.rmtree(wt, ignore_errors=True)
    subprocess.run(["git", "-C", REPO, "worktree", "add", "-q", wt, "HEAD"], check=True)
    meta = {"name": name, "breaks": [p.split(":")[0] for p in props][:1], "ran": []}
    try:
        patch = os.path.join(mdir, "patch.diff")
        demos = [f for f in glob.glob(os.path.join(mdir, "*.go"))]
        # without the patch: demo passes
        for d in demos:
            shutil.copy(d, os.path.join(wt, demo_pkg, os.path.basename(d)))
        rc0, out0 = sh(["go", "test", "-vet=off", "-count=1", "-run", demo_re, "./" + demo_pkg], wt)
        meta["demo_without_change"] = "pass" if rc0 == 0 else "FAIL"
        rc, out = sh(["git", "apply", patch], wt)
        if rc != 0:
            print("patch does not apply:", out)
            return 2
        # existing suite with the patch (demo moved aside)
        for d in demos:
            os.remove(os.path.join(wt, demo_pkg, os.path.basename(d)))
        rcb, outb = sh(["go", "build", "./..."], wt)
        rcb2, _ = sh(["go", "build", "-tags", "verif", "./..."], wt)
        rcs, outs = sh(["go", "test", "-vet=off", "-count=1", "./..."], wt)
        meta["builds_with_change"] = rcb == 0 and rcb2 == 0
        meta["existing_suite_with_change"] = "pass" if rcs == 0 else "FAIL"
        for d in demos:
            shutil.copy(d, os.path.join(wt, demo_pkg, os.path.basename(d)))
        fails = 0
        for i in range(3):
            rc1, out1 = sh(["go", "test", "-vet=off", "-count=1", "-run", demo_re, "./" + demo_pkg], wt)
            fails += rc1 != 0
        meta["demo_with_change"] = "fails %d/3" % fails
        print("confirm: suite_with_change=%s demo_without=%s demo_with=%s" % (meta["existing_suite_with_change"], meta["demo_without_change"], meta["demo_with_change"]))
        if rcs != 0:
            print(outs[-1500:])
        if rc0 != 0:
            print(out0[-1500:])
    finally:
        subprocess.run(["git", "-C", REPO, "worktree", "remove", "--force", wt], capture_output=True)
        shutil.rmtree(wt, ignore_errors=True)
    dst = os.path.join(VERIF, "seeded", name)
    os.makedirs(dst, exist_ok=True)
    shutil.copy(patch, os.path.join(dst, "patch.diff"))
    for d in demos:
        shutil.copy(d, os.path.join(dst, os.path.basename(d) + ".txt" if False else os.path.basename(d)))
    if os.path.exists(os.path.join(mdir, "README.md")):
        shutil.copy(os.path.join(mdir, "README.md"), os.path.join(dst, "README.md"))
    meta["demo_pkg"] = demo_pkg
    meta["demo_run"] = demo_re
    # run the checks with the patch planted in /repo
    r = subprocess.run([sys.executable, os.path.join(VERIF, "drv", "mut.py"), "--patch", os.path.join(dst, "patch.diff"), "--"] + props,
                       cwd=VERIF, capture_output=True, text=True, errors="replace")
    print(r.stdout[-3000:])
    res = {}
    for line in r.stdout.splitlines():
        f = line.split()
        if len(f) >= 2 and f[1].startswith("rc="):
            res[f[0]] = {"rc": int(f[1][3:]), "line": line[:400]}
    meta["checks"] = res
    meta["ran"] = ["drv/seedcheck.py (fresh worktree: suite + demo both ways)", "drv/mut.py --patch patch.diff -- " + " ".join(props)]
    with open(os.path.join(dst, "meta.json"), "w") as fh:
        json.dump(meta, fh, indent=1)
    return 0


if __name__ == "__main__":
    sys.exit(main())
