"""Shared driver machinery: build, shard, merge evidence, verdicts."""
import glob
import hashlib
import json
import os
import re
import shutil
import subprocess
import sys
import time

VERIF = os.path.dirname(os.path.dirname(os.path.abspath(__file__)))
HARNESS = os.path.join(VERIF, "harness")
# the tree under test; VERIF_REPO lets the sensitivity helpers point the whole machinery at a
# scratch copy (the registered commands never set it: they build from /repo's working tree)
REPO = os.environ.get("VERIF_REPO", "/repo")
EVIDENCE = os.environ.get("VERIF_EVIDENCE_DIR", os.path.join(VERIF, "evidence"))
REPLAYS = os.environ.get("VERIF_REPLAYS_DIR", os.path.join(VERIF, "replays"))
KNOWN = os.path.join(VERIF, "known_findings.json")
NCPU = os.cpu_count() or 4


def go_env(extra=None):
    env = dict(os.environ)
    # the repository needs the go1.24 toolchain from the module cache:
    # GOTOOLCHAIN must stay "auto", GOSUMDB must not be "off" (see DESIGN.md §11)
    env.pop("GOTOOLCHAIN", None)
    env.pop("GOSUMDB", None)
    env["GOFLAGS"] = "-mod=mod"
    env["GOPROXY"] = "off"
    env.setdefault("GOCACHE", os.path.expanduser("~/.cache/go-build"))
    if extra:
        env.update(extra)
    return env


def seed():
    try:
        return int(os.environ.get("VERIF_SEED", "1"))
    except ValueError:
        return 1


def rapid_seed(prop_index, shard, leg=0):
    return 1 + (seed() * 1000003 + shard * 7919 + prop_index + leg * 104729) % (2**31 - 2)


def workdir(tag):
    d = "/dev/shm/verif-%s-%d" % (tag, os.getpid())
    shutil.rmtree(d, ignore_errors=True)
    os.makedirs(d)
    return d


def log(*a):
    print(*a, file=sys.stderr, flush=True)


# ---------------------------------------------------------------- build

def overlay_path():
    """Builds (once per toolchain) the patched copy of package os; returns overlay.json."""
    import fsoverlay
    return fsoverlay.ensure()


_ALT_MOD = None


def modfile_args():
    """[] normally; with VERIF_REPO set, a -modfile whose replace points at that copy."""
    global _ALT_MOD
    if REPO == "/repo":
        return []
    if _ALT_MOD is None:
        d = "/dev/shm/verif-altmod-%d" % os.getpid()
        os.makedirs(d, exist_ok=True)
        text = open(os.path.join(HARNESS, "go.mod")).read().replace("=> /repo", "=> " + REPO)
        with open(os.path.join(d, "go.mod"), "w") as fh:
            fh.write(text)
        shutil.copy(os.path.join(HARNESS, "go.sum"), os.path.join(d, "go.sum"))
        import atexit
        atexit.register(lambda: shutil.rmtree(d, ignore_errors=True))
        _ALT_MOD = os.path.join(d, "go.mod")
    return ["-modfile=" + _ALT_MOD]


def build_test(pkg, out, race=False, overlay=False):
    """go test -c of harness/checks/<pkg> against /repo's working tree, tag verif."""
    cmd = ["go", "test", "-c", "-tags", "verif", "-vet=off", "-o", out] + modfile_args()
    if race:
        cmd.append("-race")
    if overlay:
        cmd += ["-overlay", overlay_path()]
    cmd.append("./checks/" + pkg)
    t0 = time.time()
    p = subprocess.run(cmd, cwd=HARNESS, env=go_env(), capture_output=True, text=True)
    if p.returncode != 0:
        log("BUILD FAILED:", " ".join(cmd))
        log(p.stdout[-4000:])
        log(p.stderr[-4000:])
        return False
    log("built %s in %.1fs" % (pkg, time.time() - t0))
    return True


def build_cmd(pkgpath, out, race=False, overlay=False, tags="verif"):
    cmd = ["go", "build", "-tags", tags, "-o", out] + modfile_args()
    if race:
        cmd.append("-race")
    if overlay:
        cmd += ["-overlay", overlay_path()]
    cmd.append(pkgpath)
    p = subprocess.run(cmd, cwd=HARNESS, env=go_env(), capture_output=True, text=True)
    if p.returncode != 0:
        log("BUILD FAILED:", " ".join(cmd))
        log(p.stdout[-4000:])
        log(p.stderr[-4000:])
        return False
    return True


# ---------------------------------------------------------------- shards

class Shard:
    def __init__(self, idx, proc, outdir, logpath, deadline):
        self.idx, self.proc, self.outdir, self.logpath, self.deadline = idx, proc, outdir, logpath, deadline
        self.timed_out = False


def run_rapid_leg(prop, leg_no, leg, wd, binary):
    """Runs one leg: N shard processes of one test binary. Returns list of result dicts."""
    from checks_table import PROP_INDEX
    shards = leg.get("shards", NCPU)
    checks = leg.get("checks", 100)
    timeout = leg.get("timeout", 300)
    results = []
    running = []
    todo = list(range(shards))
    maxpar = leg.get("parallel", NCPU)
    t_end_all = time.time() + timeout + 30
    while todo or running:
        while todo and len(running) < maxpar:
            s = todo.pop(0)
            od = os.path.join(wd, "leg%d" % leg_no, "s%d" % s)
            os.makedirs(od, exist_ok=True)
            env = go_env({
                "VERIF_OUT": od, "VERIF_SHARD": str(s), "VERIF_PROP": prop,
                "VERIF_TIER": leg.get("tier", "quick"),
                "VERIF_SCRATCH": os.path.join(od, "scratch"),
                "GORACE": "halt_on_error=1 exitcode=66",
                # one shard per core: without this every shard runs GC and scheduler on all cores
                "GOMAXPROCS": str(leg.get("gomaxprocs", 2)),
            })
            env.pop("VERIF_REPLAY", None)
            for k, v in leg.get("env", {}).items():
                env[k] = str(v)
            os.makedirs(env["VERIF_SCRATCH"], exist_ok=True)
            cmd = [binary, "-test.run", "^%s$" % leg["test"], "-test.timeout", "%ds" % timeout,
                   "-rapid.checks=%d" % checks, "-rapid.seed=%d" % rapid_seed(PROP_INDEX[prop], s, leg_no),
                   "-rapid.nofailfile", "-rapid.shrinktime=%s" % leg.get("shrinktime", "20s")]
            if "steps" in leg:
                cmd.append("-rapid.steps=%d" % leg["steps"])
            lp = os.path.join(od, "log.txt")
            lf = open(lp, "w")
            p = subprocess.Popen(cmd, cwd=od, env=env, stdout=lf, stderr=subprocess.STDOUT)
            lf.close()
            running.append(Shard(s, p, od, lp, time.time() + timeout + 20))
        time.sleep(0.05)
        for sh in list(running):
            rc = sh.proc.poll()
            if rc is None and time.time() > sh.deadline:
                sh.proc.kill()
                sh.proc.wait()
                sh.timed_out = True
                rc = -9
            if rc is not None:
                running.remove(sh)
                results.append(collect_shard(prop, sh, rc))
    return results


def collect_shard(prop, sh, rc):
    res = {"shard": sh.idx, "rc": rc, "timed_out": sh.timed_out, "outdir": sh.outdir,
           "violations": [], "data": None, "log_tail": ""}
    for f in sorted(glob.glob(os.path.join(sh.outdir, "shard_%s_*.json" % prop))):
        try:
            res["data"] = json.load(open(f))
        except Exception:
            pass
    for f in sorted(glob.glob(os.path.join(sh.outdir, "violation_%s_*.json" % prop))):
        try:
            res["violations"].append(json.load(open(f)))
        except Exception:
            pass
    try:
        with open(sh.logpath, "rb") as fh:
            fh.seek(0, 2)
            n = fh.tell()
            fh.seek(max(0, n - 12000))
            res["log_tail"] = fh.read().decode("utf-8", "replace")
    except Exception:
        pass
    cur = glob.glob(os.path.join(sh.outdir, "current_case_%s_*.json" % prop))
    res["current_case"] = cur[0] if cur else None
    return res


DEATH_PATTERNS = [
    (re.compile(r"WARNING: DATA RACE"), "data_race"),
    (re.compile(r"^panic: ", re.M), "panic"),
    (re.compile(r"^fatal error: ", re.M), "fatal_error"),
]


def panic_origin(log_tail):
    """Whose code panicked: walk the frames of the panicking goroutine from the top and return
    "engine" or "harness" for the first frame that belongs to either (runtime and third-party
    frames are skipped); None if the stack is not in the tail."""
    m = re.search(r"^panic: .*?\n\s*\ngoroutine \d+ \[running\]:\n(.*?)(?:\n\s*\n|\Z)", log_tail, re.S | re.M)
    if not m:
        return None
    for line in m.group(1).splitlines():
        if line.startswith(("\t", " ")):
            continue  # file:line rows
        if line.startswith("github.com/B1NARY-GR0UP/originium"):
            return "engine"
        if line.startswith("verif/harness"):
            return "harness"
    return None


def classify_death(log_tail):
    if "panic: test timed out" in log_tail:
        return None  # a time budget, never a violation
    for pat, kind in DEATH_PATTERNS:
        if pat.search(log_tail):
            if kind == "panic" and panic_origin(log_tail) == "harness":
                return None  # the machinery itself failed: inconclusive, never a violation
            return kind
    return None


# ---------------------------------------------------------------- findings

def load_known():
    try:
        return json.load(open(KNOWN)).get("findings", [])
    except FileNotFoundError:
        return []


def match_known(prop, viol):
    """A violation is a known finding only if an OPEN entry of the same property
    matches its kind and (if given) its message regexp / case predicate."""
    for f in load_known():
        if f.get("status") != "open" or f.get("property") != prop:
            continue
        sig = f.get("signature", {})
        if sig.get("kind") and sig["kind"] != viol.get("kind"):
            continue
        if sig.get("message_re") and not re.search(sig["message_re"], viol.get("message", ""), re.S):
            continue
        return f
    return None


def save_replay(prop, viol):
    d = os.path.join(REPLAYS, prop)
    os.makedirs(d, exist_ok=True)
    body = json.dumps(viol, indent=1, sort_keys=True)
    name = "%s-%s.json" % (viol.get("kind", "violation"), hashlib.sha256(body.encode()).hexdigest()[:12])
    p = os.path.join(d, name)
    with open(p, "w") as fh:
        fh.write(body)
    return p


# ---------------------------------------------------------------- evidence

def merge_evidence(prop, spec, tier, results, wall, extra_cov=None, nviol=0, notes=None):
    evals = 0
    hashes = set()
    classes, counters, known = {}, {}, {}
    samples = []
    incomplete = 0
    for r in results:
        d = r.get("data")
        if not d:
            incomplete += 1
            continue
        if not d.get("complete"):
            incomplete += 1
        evals += d.get("evaluations", 0)
        hashes.update(d.get("nontrivial_hashes") or [])
        for k, v in (d.get("classes") or {}).items():
            classes[k] = classes.get(k, 0) + v
        for k, v in (d.get("counters") or {}).items():
            counters[k] = counters.get(k, 0) + v
        for k, v in (d.get("known_findings") or {}).items():
            known[k] = known.get(k, 0) + v
        for s in d.get("samples") or []:
            if len(samples) < 3:
                samples.append(s)
    cov = {
        "evaluations": evals,
        "distinct_nontrivial": len(hashes),
        "rule": spec["rule"],
        "samples": samples,
        "classes": classes,
        "counters": counters,
        "excluded_known_findings": known,
        "shards": len(results),
        "shards_incomplete": incomplete,
        "exhaustive": False,
    }
    if extra_cov:
        cov.update(extra_cov)
    ev = {
        "property_id": prop,
        "tier": tier,
        "seed": seed(),
        "level": spec["level"],
        "coverage": cov,
        "assumptions": spec.get("assumptions", []),
        "wall_s": round(wall, 2),
        "violations": nviol,
    }
    if notes:
        ev["notes"] = notes
    os.makedirs(EVIDENCE, exist_ok=True)
    tmp = os.path.join(EVIDENCE, ".%s.tmp" % prop)
    with open(tmp, "w") as fh:
        json.dump(ev, fh, indent=1)
    os.replace(tmp, os.path.join(EVIDENCE, "%s.json" % prop))
    return ev


# ---------------------------------------------------------------- check

def run_check(prop, tier):
    from checks_table import CHECKS
    spec = CHECKS[prop]
    t0 = time.time()
    wd = workdir(prop)
    try:
        return _run_check(prop, tier, spec, wd, t0)
    finally:
        shutil.rmtree(wd, ignore_errors=True)


def _run_check(prop, tier, spec, wd, t0):
    legs = spec[tier] if tier in spec else spec["quick"]
    results = []
    inconclusive = []
    extra_cov = {}
    built = {}
    for i, leg in enumerate(legs):
        leg = dict(leg)
        leg["tier"] = tier
        kind = leg.get("kind", "rapid")
        if kind == "custom":
            import importlib
            mod = importlib.import_module(leg["module"])
            r, cov, inc = mod.run(prop, tier, leg, wd)
            results += r
            extra_cov.update(cov or {})
            inconclusive += inc or []
            continue
        key = (leg["pkg"], bool(leg.get("race")), bool(leg.get("overlay")))
        if key not in built:
            out = os.path.join(wd, "%s%s%s.test" % (leg["pkg"], "-race" if key[1] else "", "-ov" if key[2] else ""))
            if not build_test(leg["pkg"], out, race=key[1], overlay=key[2]):
                print("INCONCLUSIVE property=%s harness build failed" % prop)
                return 2
            built[key] = out
        if leg.get("vworker"):
            vw = os.path.join(wd, "vworker")
            if not os.path.exists(vw):
                if not build_cmd("./cmd/vworker", vw, overlay=True, tags="verif verifov"):
                    print("INCONCLUSIVE property=%s harness build failed (vworker)" % prop)
                    return 2
            leg.setdefault("env", {})
            leg["env"] = dict(leg["env"], VERIF_VWORKER=vw)
        if kind == "rapid":
            t_leg = time.time()
            results += run_rapid_leg(prop, i, leg, wd, built[key])
            log("  leg %d %s: %.1fs" % (i, leg["test"], time.time() - t_leg))
        elif kind == "fuzz":
            import fuzzleg
            r, inc = fuzzleg.run(prop, i, leg, wd, built[key])
            results += r
            inconclusive += inc
    results += run_regress(prop, spec, wd, built)
    return verdict(prop, tier, spec, results, inconclusive, extra_cov, t0)


def run_regress(prop, spec, wd, built):
    """Replays every saved shrunk failure under regress/<prop>/ without rapid (seconds-long tier)."""
    files = sorted(glob.glob(os.path.join(VERIF, "regress", prop, "*.json")))
    out = []
    for n, f in enumerate(files):
        try:
            viol = json.load(open(f))
        except Exception:
            continue
        if viol.get("replay_module"):
            continue
        test = viol.get("test")
        leg = None
        for tier in ("quick", "thorough"):
            for l in spec.get(tier, []):
                if l.get("test") == test:
                    leg = l
        if leg is None:
            continue
        key = (leg["pkg"], bool(leg.get("race")), bool(leg.get("overlay")))
        if key not in built:
            o = os.path.join(wd, "%s%s%s.test" % (leg["pkg"], "-race" if key[1] else "", "-ov" if key[2] else ""))
            if not build_test(leg["pkg"], o, race=key[1], overlay=key[2]):
                continue
            built[key] = o
        od = os.path.join(wd, "regress%d" % n)
        os.makedirs(os.path.join(od, "scratch"), exist_ok=True)
        env = go_env({"VERIF_OUT": od, "VERIF_REPLAY": f, "VERIF_SHARD": str(900 + n), "VERIF_PROP": prop,
                      "VERIF_SCRATCH": os.path.join(od, "scratch"), "GORACE": "halt_on_error=1 exitcode=66"})
        for k, v in leg.get("env", {}).items():
            env[k] = str(v)
        if leg.get("vworker"):
            vw = os.path.join(wd, "vworker")
            if not os.path.exists(vw) and not build_cmd("./cmd/vworker", vw, overlay=True, tags="verif verifov"):
                continue
            env["VERIF_VWORKER"] = vw
        lp = os.path.join(od, "log.txt")
        with open(lp, "w") as lf:
            p = subprocess.Popen([built[key], "-test.run", "^%s$" % test, "-test.timeout", "120s"],
                                 cwd=od, env=env, stdout=lf, stderr=subprocess.STDOUT)
            try:
                rc = p.wait(timeout=150)
            except subprocess.TimeoutExpired:
                p.kill()
                rc = -9
        sh = Shard(900 + n, p, od, lp, 0)
        r = collect_shard(prop, sh, rc)
        r["regress_file"] = f
        if r["data"]:
            r["data"]["evaluations"] = 0  # replays are not generated cases
            r["data"]["nontrivial_hashes"] = []
            r["data"]["samples"] = []
            r["data"]["counters"] = {"regress_replays": 1}
        out.append(r)
    return out


def verdict(prop, tier, spec, results, inconclusive, extra_cov, t0):
    violations = []
    for r in results:
        if r["violations"]:
            violations += r["violations"]
        elif r["rc"] not in (0, None):
            if r.get("timed_out"):
                inconclusive.append("shard %s hit its time budget" % r["shard"])
                continue
            kind = classify_death(r["log_tail"])
            if kind and spec.get("death_is_violation", False):
                case = None
                if r.get("current_case"):
                    try:
                        case = json.load(open(r["current_case"]))
                    except Exception:
                        case = None
                violations.append({"property": prop, "kind": "process_" + kind, "case": case,
                                   "message": r["log_tail"][-6000:], "test": spec.get("test", "")})
            else:
                inconclusive.append("shard %s exited with %s: %s" % (r["shard"], r["rc"], r["log_tail"][-1500:]))
    new, known_lines = [], []
    for v in violations:
        f = match_known(prop, v)
        if f:
            known_lines.append("KNOWN-FINDING: property=%s %s" % (prop, f.get("what", f.get("id", ""))))
        else:
            new.append(v)
    ev = merge_evidence(prop, spec, tier, results, time.time() - t0, extra_cov, nviol=len(new),
                        notes=inconclusive[:10] or None)
    for line in sorted(set(known_lines)):
        print(line)
    cov = ev["coverage"]
    log("%s %s: evaluations=%d distinct_nontrivial=%d wall=%.1fs violations=%d inconclusive=%d" % (
        prop, tier, cov["evaluations"], cov["distinct_nontrivial"], ev["wall_s"], len(new), len(inconclusive)))
    if new:
        seen = set()
        for v in new:
            p = save_replay(prop, v)
            if p in seen:
                continue
            seen.add(p)
            print("VIOLATION property=%s replay=%s" % (prop, p))
            log("  kind=%s: %s" % (v.get("kind"), (v.get("message") or "")[:600]))
        return 1
    if inconclusive:
        for m in inconclusive[:5]:
            log("INCONCLUSIVE:", m[:2000])
        print("INCONCLUSIVE property=%s (%d problems; see stderr)" % (prop, len(inconclusive)))
        return 2
    if cov["evaluations"] < 1 or cov["distinct_nontrivial"] < 2:
        print("INCONCLUSIVE property=%s too few non-trivial cases (%d of %d)" % (
            prop, cov["distinct_nontrivial"], cov["evaluations"]))
        return 2
    print("OK property=%s tier=%s evaluations=%d distinct_nontrivial=%d" % (
        prop, tier, cov["evaluations"], cov["distinct_nontrivial"]))
    return 0


# ---------------------------------------------------------------- replay

def run_replay(prop, path):
    from checks_table import CHECKS
    spec = CHECKS[prop]
    path = os.path.abspath(path)
    try:
        viol = json.load(open(path))
    except Exception as e:
        print("cannot read", path, e)
        return 2
    if spec.get("replay_module"):
        import importlib
        return importlib.import_module(spec["replay_module"]).replay(prop, path, viol)
    test = viol.get("test") or spec["quick"][0]["test"]
    leg = None
    for tier in ("quick", "thorough"):
        for l in spec.get(tier, []):
            if l.get("test") == test:
                leg = l
                break
        if leg:
            break
    if leg is None:
        leg = spec["quick"][0]
    wd = workdir("replay-" + prop)
    try:
        out = os.path.join(wd, "t.test")
        if not build_test(leg["pkg"], out, race=bool(leg.get("race")), overlay=bool(leg.get("overlay"))):
            return 2
        od = os.path.join(wd, "out")
        os.makedirs(od)
        if leg.get("vworker"):
            vw = os.path.join(wd, "vworker")
            if not build_cmd("./cmd/vworker", vw, overlay=True, tags="verif verifov"):
                return 2
            leg = dict(leg)
            leg["env"] = dict(leg.get("env", {}), VERIF_VWORKER=vw)
        env = go_env({"VERIF_OUT": od, "VERIF_REPLAY": path, "VERIF_SHARD": "0", "VERIF_PROP": prop,
                      "VERIF_SCRATCH": os.path.join(od, "scratch"), "GORACE": "halt_on_error=1 exitcode=66"})
        for k, v in leg.get("env", {}).items():
            env[k] = str(v)
        os.makedirs(env["VERIF_SCRATCH"])
        tries = int(leg.get("replay_tries", 1))
        for attempt in range(tries):
            p = subprocess.run([out, "-test.run", "^%s$" % test, "-test.timeout", "300s", "-test.v"],
                               cwd=od, env=env, capture_output=True, text=True)
            vf = glob.glob(os.path.join(od, "violation_%s_*.json" % prop))
            died = classify_death(p.stdout + p.stderr) if p.returncode != 0 else None
            if vf or died:
                sys.stderr.write((p.stdout + p.stderr)[-5000:])
                print("VIOLATION property=%s replay=%s" % (prop, path))
                return 1
            if p.returncode != 0:
                sys.stderr.write((p.stdout + p.stderr)[-5000:])
                print("INCONCLUSIVE replay exited with", p.returncode)
                return 2
        print("OK property=%s replay did not reproduce (%d attempt(s))" % (prop, tries))
        return 0
    finally:
        shutil.rmtree(wd, ignore_errors=True)


# ---------------------------------------------------------------- setup / baseline

def setup():
    """Offline warm-up: builds every test binary once so that later checks hit the build cache."""
    from checks_table import CHECKS
    wd = workdir("setup")
    ok = True
    try:
        seen = set()
        for prop, spec in CHECKS.items():
            for tier in ("quick", "thorough"):
                for leg in spec.get(tier, []):
                    if leg.get("kind", "rapid") == "custom":
                        import importlib
                        mod = importlib.import_module(leg["module"])
                        if hasattr(mod, "setup") and leg["module"] not in seen:
                            seen.add(leg["module"])
                            ok = mod.setup(wd) and ok
                        continue
                    if leg.get("vworker") and "vworker" not in seen:
                        seen.add("vworker")
                        ok = build_cmd("./cmd/vworker", os.path.join(wd, "vworker"), overlay=True, tags="verif verifov") and ok
                    key = (leg["pkg"], bool(leg.get("race")), bool(leg.get("overlay")))
                    if key in seen:
                        continue
                    seen.add(key)
                    ok = build_test(leg["pkg"], os.path.join(wd, "x.test"), race=key[1], overlay=key[2]) and ok
    finally:
        shutil.rmtree(wd, ignore_errors=True)
    print("setup", "ok" if ok else "FAILED")
    return 0 if ok else 1


def baseline_off():
    """The repository's own test suite with the verif guard OFF (plain go test)."""
    p = subprocess.run(["go", "test", "-vet=off", "-count=1", "-timeout", "25m", "./..."], cwd=REPO, env=go_env())
    return p.returncode
