#!/usr/bin/env python3
"""Sensitivity helper: plant a change in a scratch copy of /repo, run checks against it.

  mut.py [--baseline] <file> <old> <new> -- <PROP[:tier]> [<PROP>...]
  mut.py [--baseline] --patch <diff> -- <PROP> ...
  mut.py [--baseline] --revert <commit> -- <PROP> ...

The change is applied to a fresh git worktree of /repo's HEAD under /tmp (removed afterwards);
the checks run with VERIF_REPO pointing at it and with their evidence/replays redirected, so
neither /repo nor /verif/evidence is touched and background runs are not disturbed.
"""
import os
import shutil
import subprocess
import sys

REPO = "/repo"
VERIF = os.path.dirname(os.path.dirname(os.path.abspath(__file__)))
sys.path.insert(0, os.path.dirname(os.path.abspath(__file__)))
import common  # noqa: E402


def main():
    a = sys.argv[1:]
    baseline = False
    if a and a[0] == "--baseline":
        baseline = True
        a = a[1:]
    sep = a.index("--")
    spec, props = a[:sep], a[sep + 1:]
    wt = "/tmp/mutwt-%d" % os.getpid()
    subprocess.run(["git", "-C", REPO, "worktree", "add", "-q", "--detach", wt, "HEAD"], check=True)
    try:
        if spec[0] == "--revert":
            d = subprocess.run(["git", "-C", REPO, "show", spec[1]], capture_output=True, text=True).stdout
            r = subprocess.run(["git", "-C", wt, "apply", "-R", "-"], input=d, text=True)
            if r.returncode != 0:
                print("cannot revert", spec[1])
                return 2
        elif spec[0] == "--patch":
            r = subprocess.run(["git", "-C", wt, "apply", os.path.abspath(spec[1])])
            if r.returncode != 0:
                print("patch does not apply")
                return 2
        else:
            f, old, new = spec
            p = os.path.join(wt, f)
            s = open(p).read()
            if s.count(old) != 1:
                print("old text occurs %d times in %s" % (s.count(old), f))
                return 2
            open(p, "w").write(s.replace(old, new))
        env = dict(os.environ)
        env["VERIF_REPO"] = wt
        env["VERIF_EVIDENCE_DIR"] = os.path.join(wt, ".verif-evidence")
        env["VERIF_REPLAYS_DIR"] = os.path.join(VERIF, "replays", "mut")
        if baseline:
            r = subprocess.run(["go", "test", "-vet=off", "-count=1", "./..."], cwd=wt, env=common.go_env(),
                               capture_output=True, text=True)
            print("baseline suite with mutant: rc=%d" % r.returncode)
            if r.returncode != 0:
                print(r.stdout[-3000:])
        for pr in props:
            tier = "quick"
            if ":" in pr:
                pr, tier = pr.split(":")
            r = subprocess.run([sys.executable, os.path.join(VERIF, "run.py"), "check", pr, "--tier", tier],
                               cwd=VERIF, capture_output=True, text=True, errors="replace", env=env)
            lines = [l for l in r.stdout.splitlines() if l.startswith(("VIOLATION", "KNOWN", "OK", "INCONCLUSIVE"))]
            print("%s rc=%d %s" % (pr, r.returncode, " | ".join(lines)[:300]))
            try:
                os.makedirs("/dev/shm/mut-evidence", exist_ok=True)
                shutil.copy(os.path.join(env["VERIF_EVIDENCE_DIR"], pr + ".json"), "/dev/shm/mut-evidence/%s.json" % pr)
            except Exception:
                pass
            if r.returncode == 2:
                print(r.stderr[-2500:])
            elif r.returncode == 1:
                tail = [l for l in r.stderr.splitlines() if "kind=" in l]
                print("   " + "\n   ".join(t[:400] for t in tail[:3]))
        return 0
    finally:
        subprocess.run(["git", "-C", REPO, "worktree", "remove", "--force", wt], capture_output=True)
        shutil.rmtree(wt, ignore_errors=True)


if __name__ == "__main__":
    sys.exit(main())
