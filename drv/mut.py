#!/usr/bin/env python3
"""Sensitivity helper: plant a one-line change in /repo, run checks, revert.

  mut.py [--baseline] <file> <old> <new> -- <PROP> [<PROP>...]
  mut.py [--baseline] --patch <diff> -- <PROP> ...

Never leaves /repo modified (git checkout -- . afterwards).
"""
import os
import subprocess
import sys

REPO = "/repo"
VERIF = os.path.dirname(os.path.dirname(os.path.abspath(__file__)))
sys.path.insert(0, os.path.dirname(os.path.abspath(__file__)))
import common  # noqa: E402


def main():
    a = sys.argv[1:]
    baseline = False
    if a and a[0] == "--baseline":
        baseline = True
        a = a[1:]
    sep = a.index("--")
    spec, props = a[:sep], a[sep + 1:]
    st = subprocess.run(["git", "-C", REPO, "status", "--porcelain"], capture_output=True, text=True).stdout.strip()
    if st:
        print("refusing: /repo is dirty:\n" + st)
        return 2
    import shutil
    import tempfile
    evid = os.path.join(VERIF, "evidence")
    keep = tempfile.mkdtemp(prefix="evid-keep-", dir="/dev/shm")
    if os.path.isdir(evid):
        shutil.copytree(evid, os.path.join(keep, "evidence"))
    try:
        if spec[0] == "--revert":
            d = subprocess.run(["git", "-C", REPO, "show", spec[1]], capture_output=True, text=True).stdout
            r = subprocess.run(["git", "-C", REPO, "apply", "-R", "-"], input=d, text=True)
            if r.returncode != 0:
                print("cannot revert", spec[1])
                return 2
        elif spec[0] == "--patch":
            r = subprocess.run(["git", "-C", REPO, "apply", os.path.abspath(spec[1])])
            if r.returncode != 0:
                print("patch does not apply")
                return 2
        else:
            f, old, new = spec
            p = os.path.join(REPO, f)
            s = open(p).read()
            if s.count(old) != 1:
                print("old text occurs %d times in %s" % (s.count(old), f))
                return 2
            open(p, "w").write(s.replace(old, new))
        if baseline:
            r = subprocess.run(["go", "test", "-vet=off", "-count=1", "./..."], cwd=REPO, env=common.go_env(),
                               capture_output=True, text=True)
            print("baseline suite with mutant: rc=%d" % r.returncode)
            if r.returncode != 0:
                print(r.stdout[-3000:])
        out = {}
        for pr in props:
            tier = "quick"
            if ":" in pr:
                pr, tier = pr.split(":")
            r = subprocess.run([sys.executable, os.path.join(VERIF, "run.py"), "check", pr, "--tier", tier],
                               cwd=VERIF, capture_output=True, text=True)
            lines = [l for l in r.stdout.splitlines() if l.startswith(("VIOLATION", "KNOWN", "OK", "INCONCLUSIVE"))]
            out[pr] = r.returncode
            print("%s rc=%d %s" % (pr, r.returncode, " | ".join(lines)[:300]))
            if r.returncode == 2:
                print(r.stderr[-2500:])
            elif r.returncode == 1:
                tail = [l for l in r.stderr.splitlines() if "kind=" in l]
                print("   " + "\n   ".join(t[:400] for t in tail[:3]))
        return 0
    finally:
        subprocess.run(["git", "-C", REPO, "checkout", "--", "."])
        subprocess.run(["git", "-C", REPO, "clean", "-fdq"])
        # evidence written while the mutant was planted does not describe the unchanged tree
        if os.path.isdir(os.path.join(keep, "evidence")):
            shutil.rmtree(evid, ignore_errors=True)
            shutil.copytree(os.path.join(keep, "evidence"), evid)
        shutil.rmtree(keep, ignore_errors=True)
        # restore evidence of the unchanged tree is the caller's business


if __name__ == "__main__":
    sys.exit(main())
