//go:build verifov

// vworker is the child process of the crash engine. It is built with the os
// overlay (file-system interposer) and runs ONE job described by a JSON file:
//
//	run      open the DB, execute a workload (CALL/ACK logged), optionally Close
//	recover  open the DB on a crash image in this fresh process, read every key,
//	         optionally run a follow-up workload and Close; results go to a JSON file
//
// Both can run in snapshot mode (an image of the directory before every
// mutating file-system operation) or kill mode (SIGKILL before the N-th one).
package main

import (
	"encoding/json"
	"fmt"
	"os"
	"path/filepath"
	"runtime"
	"sync/atomic"
	"syscall"
	"time"

	"github.com/B1NARY-GR0UP/originium"
	"github.com/B1NARY-GR0UP/originium/pkg/logger"

	"verif/harness/crashlib"
	"verif/harness/fsx"
	"verif/harness/vlib"
)

type Job struct {
	Mode     string            `json:"mode"` // run | recover
	Dir      string            `json:"dir"`
	Workload crashlib.Workload `json:"workload"` // run: the workload; recover: cfg+keys+follow-up txns
	AckPath  string            `json:"ack_path"`
	OutPath  string            `json:"out_path"` // recover: where the reads go
	SnapDir  string            `json:"snap_dir"`
	MaxSnaps int               `json:"max_snaps"`
	KillAt   int               `json:"kill_at"`
	OpLog    string            `json:"op_log"`
}

// RecoverJob is one crash image to recover inside a batch worker.
type RecoverJob struct {
	ID       int               `json:"id"`
	SrcDir   string            `json:"src_dir"`  // image directory (copied, never modified)
	WorkDir  string            `json:"work_dir"` // where the copy is recovered
	Cuts     map[string]int64  `json:"cuts"`     // file name -> length to truncate the copy to
	Workload crashlib.Workload `json:"workload"` // cfg + keys + follow-up transactions (may be empty)
	AckPath  string            `json:"ack_path"` // ack log of the follow-up
	SnapDir  string            `json:"snap_dir"` // non-empty: image before every operation of THIS recovery (crash sequences)
	MaxSnaps int               `json:"max_snaps"`
	Again    int               `json:"again"` // after the first recovery: give the handle up without a commit or Close and Open again, this many times
}

type BatchJob struct {
	Jobs    []RecoverJob `json:"jobs"`
	OutPath string       `json:"out_path"` // JSON lines: {"start":id} before a job, the RecoverResult after it
}

type RecoverResult struct {
	ID       int            `json:"id"`
	Done     bool           `json:"done"`
	Opened   bool           `json:"opened"`
	Reads    map[int]string `json:"reads"`
	Followup bool           `json:"followup"`
	Reads2   map[int]string `json:"reads2"` // after follow-up, Close and a reopen
	Panic    string         `json:"panic"`
	Where    string         `json:"where"`
	Ops      int            `json:"ops"`
	Again    int            `json:"again"` // how often the recovered store was abandoned and recovered again
}

type Out struct {
	Opened   bool           `json:"opened"`
	Reads    map[int]string `json:"reads"`    // after Open, before the follow-up
	Followup bool           `json:"followup"` // follow-up ran and Close returned
	Ops      int            `json:"ops"`      // intercepted operations
	OpenOps  int            `json:"open_ops"` // ... of which during Open
}

var phase atomic.Value

func toConfig(c crashlib.Cfg) originium.Config {
	return originium.Config{
		SkipListMaxLevel: c.SkipListMaxLevel, SkipListP: c.SkipListP,
		MemtableByteThreshold: c.MemThreshold, ImmutableBuffer: c.ImmBuf,
		DataBlockByteThreshold: c.Block, L0TargetNum: c.L0Target, LevelRatio: c.Ratio,
	}
}

func ackLine(fd int, s string) {
	_, _ = syscall.Write(fd, []byte(s+"\n"))
}

func runTxns(db *originium.DB, w crashlib.Workload, ackFd int) {
	for _, t := range w.Txns {
		ackLine(ackFd, fmt.Sprintf("CALL %d", t.No))
		err := db.Update(func(tx *originium.Txn) error {
			for i, o := range t.Ops {
				key := string(w.Keys[o.K])
				if o.Del {
					if err := tx.Delete(key); err != nil {
						return err
					}
				} else if err := tx.Set(key, []byte(crashlib.Value(t.No, i, o.VLen))); err != nil {
					return err
				}
			}
			return nil
		})
		if err != nil {
			ackLine(ackFd, fmt.Sprintf("ERR %d %v", t.No, err))
		} else {
			ackLine(ackFd, fmt.Sprintf("ACK %d", t.No))
		}
	}
}

func readAll(db *originium.DB, keys []vlib.Str) map[int]string {
	out := map[int]string{}
	_ = db.View(func(tx *originium.Txn) error {
		for i, k := range keys {
			if v, ok := tx.Get(string(k)); ok {
				out[i] = crashlib.Digest(string(v))
			} else {
				out[i] = crashlib.Absent
			}
		}
		return nil
	})
	return out
}

func copyImage(src, dst string, cuts map[string]int64) error {
	_ = os.RemoveAll(dst)
	if err := os.MkdirAll(dst, 0o755); err != nil {
		return err
	}
	ents, err := os.ReadDir(src)
	if os.IsNotExist(err) {
		return nil // crash before the directory was created: recover an empty one
	}
	if err != nil {
		return err
	}
	for _, e := range ents {
		b, err := os.ReadFile(filepath.Join(src, e.Name()))
		if err != nil {
			return err
		}
		if l, ok := cuts[e.Name()]; ok && l >= 0 && l < int64(len(b)) {
			b = b[:l]
		}
		if err := os.WriteFile(filepath.Join(dst, e.Name()), b, 0o644); err != nil {
			return err
		}
	}
	return nil
}

var curJob atomic.Int64
var jobStart atomic.Int64

func batch(path string) {
	b, err := os.ReadFile(path)
	if err != nil {
		fmt.Fprintln(os.Stderr, err)
		os.Exit(2)
	}
	var bj BatchJob
	if err := json.Unmarshal(b, &bj); err != nil {
		fmt.Fprintln(os.Stderr, err)
		os.Exit(2)
	}
	logger.SetLogger(vlib.Quiet{})
	var rl syscall.Rlimit
	if syscall.Getrlimit(syscall.RLIMIT_NOFILE, &rl) == nil {
		rl.Cur = rl.Max
		_ = syscall.Setrlimit(syscall.RLIMIT_NOFILE, &rl)
	}
	out, err := os.OpenFile(bj.OutPath, os.O_CREATE|os.O_WRONLY|os.O_APPEND, 0o644)
	if err != nil {
		fmt.Fprintln(os.Stderr, err)
		os.Exit(2)
	}
	emit := func(v any) {
		ob, _ := json.Marshal(v)
		_, _ = syscall.Write(int(out.Fd()), append(ob, '\n'))
	}
	phase.Store("open")
	h := &fsx.Handler{Phase: func() string { return phase.Load().(string) }}
	_ = h.Install("")
	// watchdog: a recovery that does not return is reported, not waited for
	go func() {
		for {
			time.Sleep(time.Second)
			if st := jobStart.Load(); st != 0 && time.Since(time.Unix(0, st)) > 40*time.Second {
				buf := make([]byte, 1<<20)
				buf = buf[:runtime.Stack(buf, true)]
				fmt.Fprintf(os.Stderr, "HANG job %d\n%s\n", curJob.Load(), buf)
				os.Exit(5)
			}
		}
	}()
	for _, j := range bj.Jobs {
		emit(map[string]int{"start": j.ID})
		curJob.Store(int64(j.ID))
		jobStart.Store(time.Now().UnixNano())
		res := RecoverResult{ID: j.ID}
		func() {
			defer func() {
				if r := recover(); r != nil {
					buf := make([]byte, 8192)
					buf = buf[:runtime.Stack(buf, false)]
					res.Panic = fmt.Sprintf("%v\n%s", r, buf)
				}
			}()
			res.Where = "copy"
			if err := copyImage(j.SrcDir, j.WorkDir, j.Cuts); err != nil {
				res.Panic = "harness: " + err.Error()
				return
			}
			h.Reset(j.WorkDir, j.SnapDir, j.AckPath, j.MaxSnaps)
			phase.Store("open")
			res.Where = "open"
			db, err := originium.Open(j.WorkDir, toConfig(j.Workload.Cfg))
			if err != nil {
				res.Panic = "Open returned " + err.Error()
				return
			}
			res.Opened = true
			phase.Store("read")
			res.Where = "read"
			res.Reads = readAll(db, j.Workload.Keys)
			for i := 0; i < j.Again; i++ {
				// a process that dies right after a completed recovery, before any commit: the
				// next Open must find the same state (only when the flusher has nothing to do,
				// the abandoned handle stays in this process)
				if q, _, imm := originium.VerifQueue(db); q != 0 || imm != 0 {
					break
				}
				originium.VerifAbandon(db)
				res.Where = "open_again"
				phase.Store("open")
				db, err = originium.Open(j.WorkDir, toConfig(j.Workload.Cfg))
				if err != nil {
					res.Panic = "Open after an abandoned recovery returned " + err.Error()
					return
				}
				res.Again++
				phase.Store("read")
				res.Where = "read_again"
				res.Reads = readAll(db, j.Workload.Keys)
			}
			if len(j.Workload.Txns) == 0 {
				originium.VerifAbandon(db)
				return
			}
			ackFd := -1
			if j.AckPath != "" {
				f, err := os.OpenFile(j.AckPath, os.O_CREATE|os.O_WRONLY|os.O_APPEND, 0o644)
				if err == nil {
					ackFd = int(f.Fd())
					defer f.Close()
				}
			}
			phase.Store("followup")
			res.Where = "followup"
			runTxns(db, j.Workload, ackFd)
			phase.Store("close")
			res.Where = "close"
			db.Close()
			originium.VerifStopOracle(db)
			res.Followup = true
			h.Reset(j.WorkDir, "", "", 0) // the clean reopen is not part of the crash sequence
			res.Where = "reopen"
			db2, err := originium.Open(j.WorkDir, toConfig(j.Workload.Cfg))
			if err != nil {
				res.Panic = "reopen returned " + err.Error()
				return
			}
			res.Reads2 = readAll(db2, j.Workload.Keys)
			originium.VerifAbandon(db2)
		}()
		res.Ops = h.Seq()
		res.Done = true
		jobStart.Store(0)
		h.Reset("", "", "", 0)
		_ = os.RemoveAll(j.WorkDir)
		emit(res)
	}
	os.Exit(0)
}

func main() {
	if len(os.Args) == 3 && os.Args[1] == "batch" {
		batch(os.Args[2])
		return
	}
	if len(os.Args) != 2 {
		fmt.Fprintln(os.Stderr, "usage: vworker job.json")
		os.Exit(2)
	}
	b, err := os.ReadFile(os.Args[1])
	if err != nil {
		fmt.Fprintln(os.Stderr, err)
		os.Exit(2)
	}
	var job Job
	if err := json.Unmarshal(b, &job); err != nil {
		fmt.Fprintln(os.Stderr, err)
		os.Exit(2)
	}
	logger.SetLogger(vlib.Quiet{})
	phase.Store("open")
	h := &fsx.Handler{Dir: job.Dir, SnapDir: job.SnapDir, KillAt: job.KillAt, AckPath: job.AckPath, MaxSnaps: job.MaxSnaps,
		Phase: func() string { return phase.Load().(string) }}
	if err := h.Install(job.OpLog); err != nil {
		fmt.Fprintln(os.Stderr, err)
		os.Exit(2)
	}
	ackFd := -1
	if job.AckPath != "" {
		f, err := os.OpenFile(job.AckPath, os.O_CREATE|os.O_WRONLY|os.O_APPEND, 0o644)
		if err != nil {
			fmt.Fprintln(os.Stderr, err)
			os.Exit(2)
		}
		ackFd = int(f.Fd())
		defer f.Close()
	}
	out := Out{}
	writeOut := func() {
		if job.OutPath != "" {
			ob, _ := json.Marshal(out)
			tmp := job.OutPath + ".tmp"
			if os.WriteFile(tmp, ob, 0o644) == nil {
				_ = os.Rename(tmp, job.OutPath)
			}
		}
	}
	// a panic of Open (or of anything else) must reach the parent as a non-zero exit with the message on stderr
	db, err := originium.Open(job.Dir, toConfig(job.Workload.Cfg))
	if err != nil {
		fmt.Fprintf(os.Stderr, "OPEN-ERROR: %v\n", err)
		os.Exit(4)
	}
	out.Opened = true
	out.OpenOps = h.Seq()
	switch job.Mode {
	case "run":
		phase.Store("workload")
		runTxns(db, job.Workload, ackFd)
		if job.Workload.CloseAtEnd {
			phase.Store("close")
			db.Close()
		}
	case "recover":
		phase.Store("read")
		out.Reads = readAll(db, job.Workload.Keys)
		writeOut()
		if len(job.Workload.Txns) > 0 {
			phase.Store("followup")
			runTxns(db, job.Workload, ackFd)
			phase.Store("close")
			db.Close()
			out.Followup = true
		}
	}
	out.Ops = h.Seq()
	writeOut()
	os.Exit(0)
}
