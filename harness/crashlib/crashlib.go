// Package crashlib holds what the crash engine's parent (the test) and its
// child processes (vworker) share: the workload format, the ack log, and the
// durability oracle of C03 / C04 / C14.
package crashlib

import (
	"bufio"
	"bytes"
	"crypto/sha256"
	"fmt"
	"sort"
	"strconv"
	"strings"

	"verif/harness/vlib"
)

type Cfg struct {
	SkipListMaxLevel int     `json:"sl_max_level"`
	SkipListP        float64 `json:"sl_p"`
	MemThreshold     int     `json:"mem_threshold"`
	ImmBuf           int     `json:"imm_buffer"`
	Block            int     `json:"block"`
	L0Target         int     `json:"l0_target"`
	Ratio            int     `json:"ratio"`
}

type WOp struct {
	K    int  `json:"k"`
	Del  bool `json:"del,omitempty"`
	VLen int  `json:"vlen,omitempty"`
}

type WTxn struct {
	No  int   `json:"no"` // global transaction number (unique over the whole chain of runs)
	Ops []WOp `json:"ops"`
}

// Workload is one run of a worker on a directory.
type Workload struct {
	Cfg        Cfg        `json:"cfg"`
	Keys       []vlib.Str `json:"keys"`
	Txns       []WTxn     `json:"txns"`
	CloseAtEnd bool       `json:"close_at_end"`
}

// Value is the unique token a transaction writes to a key: "<txn>.<op>" + padding.
func Value(txn, opIdx, vlen int) string {
	return fmt.Sprintf("%d.%d", txn, opIdx) + strings.Repeat("x", vlen)
}

// Digest stands for a value in reads and in the oracle: values above 512 bytes are
// replaced by their length and SHA-256 so that multi-megabyte values do not travel
// through the result files.
func Digest(v string) string {
	if len(v) <= 512 {
		return v
	}
	h := sha256.Sum256([]byte(v))
	return fmt.Sprintf("\x01len=%d sha256=%x head=%q", len(v), h[:12], v[:16])
}

// Writes of a transaction, last write per key wins (as in Txn.pendingWrites). nil = delete.
func (t WTxn) Final() map[int]*string {
	out := map[int]*string{}
	for i, o := range t.Ops {
		if o.Del {
			out[o.K] = nil
		} else {
			v := Value(t.No, i, o.VLen)
			out[o.K] = &v
		}
	}
	return out
}

// AckLog: "CALL n" before Commit/Update is called, "ACK n" after it returned nil, "ERR n msg" otherwise.
type AckEvent struct {
	Kind string
	No   int
}

func ParseAck(b []byte) []AckEvent {
	var out []AckEvent
	sc := bufio.NewScanner(bytes.NewReader(b))
	for sc.Scan() {
		f := strings.Fields(sc.Text())
		if len(f) < 2 {
			continue
		}
		n, err := strconv.Atoi(f[1])
		if err != nil {
			continue
		}
		out = append(out, AckEvent{Kind: f[0], No: n})
	}
	return out
}

// Allowed is, per key, the set of values a correct recovery may show ("\x00absent" = not-found).
type Allowed map[int]map[string]bool

const Absent = "\x00absent"

func enc(v *string) string {
	if v == nil {
		return Absent
	}
	return Digest(*v)
}

// Expect folds runs (their transactions and the prefix of their ack log that
// existed at the crash) into the allowed values per key:
//   - a transaction whose ACK is in the prefix must be visible unless a later one replaced it,
//   - a transaction with CALL but no ACK (in flight at the crash) may or may not be visible, per key
//     (atomicity of the in-flight transaction is judged separately, C04),
//   - anything else must not be visible.
//
// It also returns the in-flight transactions, in order.
func Expect(nkeys int, runs []Run) (Allowed, []WTxn) {
	al := Allowed{}
	for k := 0; k < nkeys; k++ {
		al[k] = map[string]bool{Absent: true}
	}
	return ExpectFrom(al, runs)
}

// ExpectFrom is Expect starting from a given state.
func ExpectFrom(al Allowed, runs []Run) (Allowed, []WTxn) {
	var inflight []WTxn
	for _, r := range runs {
		status := map[int]string{}
		for _, e := range r.Ack {
			switch e.Kind {
			case "CALL":
				if status[e.No] == "" {
					status[e.No] = "inflight"
				}
			case "ACK":
				status[e.No] = "acked"
			case "ERR":
				status[e.No] = "inflight" // refused/failed: never required, leniently tolerated
			}
		}
		for _, t := range r.Txns {
			switch status[t.No] {
			case "acked":
				for k, v := range t.Final() {
					al[k] = map[string]bool{enc(v): true}
				}
			case "inflight":
				for k, v := range t.Final() {
					al[k][enc(v)] = true
				}
				inflight = append(inflight, t)
			}
		}
	}
	return al, inflight
}

// Run is one worker run: its transactions and the ack-log prefix at the cut.
type Run struct {
	Txns []WTxn
	Ack  []AckEvent
}

// Reads is what a recovery read back: key index -> value, Absent for not-found.
type Reads map[int]string

// Judge applies the C03 value oracle; returns a message per violated key.
func Judge(al Allowed, got Reads, keys []vlib.Str) []string {
	var bad []string
	ks := make([]int, 0, len(al))
	for k := range al {
		ks = append(ks, k)
	}
	sort.Ints(ks)
	for _, k := range ks {
		g, ok := got[k]
		if !ok {
			g = Absent
		}
		if !al[k][g] {
			var want []string
			for v := range al[k] {
				want = append(want, show(v))
			}
			sort.Strings(want)
			bad = append(bad, fmt.Sprintf("key %q reads %s, allowed: %s", string(keys[k]), show(g), strings.Join(want, " | ")))
		}
	}
	return bad
}

func show(v string) string {
	if v == Absent {
		return "not-found"
	}
	if len(v) > 24 {
		return fmt.Sprintf("%q...", v[:24])
	}
	return fmt.Sprintf("%q", v)
}

// Atomicity is the C04 oracle for one in-flight transaction: the keys on which
// its effect is observable (new value differs from every other allowed value)
// must show it on all of them or on none. prev is the allowed set WITHOUT this
// transaction.
func Atomicity(t WTxn, prev Allowed, later map[int]bool, got Reads, keys []vlib.Str) string {
	var newK, oldK []string
	for k, v := range t.Final() {
		nv := enc(v)
		if later[k] {
			continue // a later transaction wrote the key: this one's effect is no longer observable there
		}
		if prev[k][nv] {
			continue // not informative: the old state reads the same (e.g. delete of an absent key)
		}
		g, ok := got[k]
		if !ok {
			g = Absent
		}
		if g == nv {
			newK = append(newK, string(keys[k]))
		} else {
			oldK = append(oldK, string(keys[k]))
		}
	}
	if len(newK) > 0 && len(oldK) > 0 {
		sort.Strings(newK)
		sort.Strings(oldK)
		return fmt.Sprintf("transaction %d is visible on %q but not on %q", t.No, newK, oldK)
	}
	return ""
}

// LaterKeys returns, for the in-flight transaction no, the keys written by any transaction that
// comes after it in the chain of runs and whose Commit was at least called (acknowledged or in
// flight): on those keys the effect of no is no longer observable.
func LaterKeys(runs []Run, no int) map[int]bool {
	later := map[int]bool{}
	seen := false
	for _, r := range runs {
		called := map[int]bool{}
		for _, e := range r.Ack {
			called[e.No] = true
		}
		for _, t := range r.Txns {
			if t.No == no {
				seen = true
				continue
			}
			if seen && called[t.No] {
				for k := range t.Final() {
					later[k] = true
				}
			}
		}
	}
	return later
}
