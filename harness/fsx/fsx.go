//go:build verifov

// Package fsx is the handler side of the file-system interposer (built only
// together with the os overlay, tag verifov). It sees every mutating
// file-system operation on the DB directory immediately before it happens and
// after it returned, and can (a) log it, (b) snapshot the directory before it
// ("every completed operation persisted, the next one not started": exactly
// what a process crash at that instant leaves behind), (c) kill the process
// before the N-th operation, (d) track per file how many bytes are covered by a
// completed fsync.
package fsx

import (
	"encoding/json"
	"fmt"
	"os"
	"path/filepath"
	"strings"
	"sync"
	"syscall"
)

type FileLen struct {
	Synced  int64 `json:"synced"`
	Written int64 `json:"written"`
}

// Meta describes one crash image.
type Meta struct {
	Seq     int                `json:"seq"`  // index of the operation that had NOT started yet
	Op      string             `json:"op"`   // that operation
	Path    string             `json:"path"` // its file (base name)
	Path2   string             `json:"path2,omitempty"`
	AckOff  int64              `json:"ack_off"` // length of the ack log at that instant
	Files   map[string]FileLen `json:"files"`   // base name -> synced/written length
	Phase   string             `json:"phase"`   // what the worker was doing (open, workload, close, followup)
	LastOps []string           `json:"last_ops"`
}

type Handler struct {
	Dir      string // DB directory (operations elsewhere are ignored)
	SnapDir  string // snapshot mode: images are written to SnapDir/<seq>/
	KillAt   int    // kill mode: SIGKILL self immediately before the KillAt-th operation (1-based); 0 = never
	AckPath  string
	MaxSnaps int
	Phase    func() string

	mu     sync.Mutex // held from a pre-event to its .done event: operations on Dir are serialised
	seq    int
	files  map[string]*FileLen
	last   []string
	logF   *os.File
	nsnaps int
}

func (h *Handler) inDir(p string) bool {
	return h.Dir != "" && p != "" && (p == h.Dir || strings.HasPrefix(p, h.Dir+"/"))
}

// Install sets os.VerifFSHook.
func (h *Handler) Install(oplog string) error {
	h.files = map[string]*FileLen{}
	if oplog != "" {
		f, err := os.OpenFile(oplog, os.O_CREATE|os.O_WRONLY|os.O_APPEND, 0o644)
		if err != nil {
			return err
		}
		h.logF = f
	}
	os.VerifFSHook = h.hook
	return nil
}

// Reset points the handler at another directory (batch workers recover many images in turn).
func (h *Handler) Reset(dir, snapDir, ackPath string, maxSnaps int) {
	h.mu.Lock()
	defer h.mu.Unlock()
	h.Dir, h.SnapDir, h.AckPath, h.MaxSnaps = dir, snapDir, ackPath, maxSnaps
	h.seq, h.nsnaps = 0, 0
	h.files = map[string]*FileLen{}
	h.last = nil
}

func (h *Handler) Seq() int {
	h.mu.Lock()
	defer h.mu.Unlock()
	return h.seq
}

func (h *Handler) size(p string) int64 {
	var st syscall.Stat_t
	if err := syscall.Stat(p, &st); err != nil {
		return 0
	}
	return st.Size
}

func (h *Handler) hook(op, path, path2 string, n int64) {
	if !h.inDir(path) && !h.inDir(path2) {
		return
	}
	if strings.HasSuffix(op, ".done") {
		h.done(strings.TrimSuffix(op, ".done"), path, path2, n)
		h.mu.Unlock()
		return
	}
	h.mu.Lock() // released by the matching .done event
	h.seq++
	if path != "" && op != "rename" && op != "remove" && op != "mkdir" {
		if _, ok := h.files[filepath.Base(path)]; !ok {
			// first time this file is touched: what is on disk already counts as durable
			sz := h.size(path)
			h.files[filepath.Base(path)] = &FileLen{Synced: sz, Written: sz}
		}
	}
	line := fmt.Sprintf("%d %s %s %s", h.seq, op, filepath.Base(path), filepath.Base(path2))
	if h.logF != nil {
		_, _ = syscall.Write(int(h.logF.Fd()), []byte(line+"\n"))
	}
	if h.KillAt > 0 && h.seq == h.KillAt {
		_ = syscall.Kill(syscall.Getpid(), syscall.SIGKILL)
		select {} // never continue into the operation
	}
	if h.SnapDir != "" && (h.MaxSnaps == 0 || h.nsnaps < h.MaxSnaps) {
		h.snapshot(op, path, path2)
	}
	h.last = append(h.last, line)
	if len(h.last) > 6 {
		h.last = h.last[1:]
	}
}

func (h *Handler) done(op, path, path2 string, n int64) {
	b := filepath.Base(path)
	switch op {
	case "open":
		fl := h.files[b]
		if fl == nil {
			fl = &FileLen{}
			h.files[b] = fl
		}
		if int(n)&os.O_TRUNC != 0 {
			fl.Synced, fl.Written = 0, 0
		}
		fl.Written = h.size(path)
		if fl.Synced > fl.Written {
			fl.Synced = fl.Written
		}
	case "write", "writeat", "ftruncate", "truncate":
		fl := h.files[b]
		if fl == nil {
			fl = &FileLen{}
			h.files[b] = fl
		}
		fl.Written = h.size(path)
		if fl.Synced > fl.Written {
			fl.Synced = fl.Written
		}
	case "sync":
		fl := h.files[b]
		if fl == nil {
			fl = &FileLen{}
			h.files[b] = fl
		}
		fl.Written = h.size(path)
		fl.Synced = fl.Written
	case "rename":
		if fl, ok := h.files[b]; ok {
			delete(h.files, b)
			h.files[filepath.Base(path2)] = fl
		}
	case "remove":
		delete(h.files, b)
	}
}

// snapshot copies the DB directory as it is right now (no operation in progress).
func (h *Handler) snapshot(op, path, path2 string) {
	h.nsnaps++
	dst := filepath.Join(h.SnapDir, fmt.Sprintf("%06d", h.seq))
	if err := os.MkdirAll(filepath.Join(dst, "db"), 0o755); err != nil {
		return
	}
	m := Meta{Seq: h.seq, Op: op, Path: filepath.Base(path), Path2: filepath.Base(path2), Files: map[string]FileLen{}, LastOps: append([]string{}, h.last...)}
	if h.Phase != nil {
		m.Phase = h.Phase()
	}
	if h.AckPath != "" {
		m.AckOff = h.size(h.AckPath)
	}
	ents, _ := os.ReadDir(h.Dir)
	for _, e := range ents {
		if e.IsDir() {
			continue
		}
		b, err := os.ReadFile(filepath.Join(h.Dir, e.Name()))
		if err != nil {
			continue
		}
		_ = os.WriteFile(filepath.Join(dst, "db", e.Name()), b, 0o644)
		fl := FileLen{Synced: int64(len(b)), Written: int64(len(b))}
		if t, ok := h.files[e.Name()]; ok {
			fl = *t
			if fl.Written != int64(len(b)) {
				fl.Written = int64(len(b))
			}
			if fl.Synced > fl.Written {
				fl.Synced = fl.Written
			}
		}
		m.Files[e.Name()] = fl
	}
	mb, _ := json.Marshal(m)
	_ = os.WriteFile(filepath.Join(dst, "meta.json"), mb, 0o644)
}
