package vlib

import (
	"encoding/json"
	"sort"
	"strconv"
	"strings"
)

// Str is a byte string that survives JSON (Go-quoted ASCII inside a JSON string).
type Str string

func (s Str) MarshalJSON() ([]byte, error) {
	return json.Marshal(strconv.QuoteToASCII(string(s)))
}

func (s *Str) UnmarshalJSON(b []byte) error {
	var q string
	if err := json.Unmarshal(b, &q); err != nil {
		return err
	}
	u, err := strconv.Unquote(q)
	if err != nil {
		return err
	}
	*s = Str(u)
	return nil
}

// Pool is the key pool M5: every ordering trap named in the property anchors.
// Raw byte order and (key, version) order differ on it ("k10@5" < "k1@5" bytewise,
// "a!@5" < "a@5" bytewise although "a" < "a!").
var Pool = []string{
	"a", "a!", "a@", "a@1", "a@1@2", "@", "@@", "k1", "k10", "k2", "k", "0", "00", " ", "\x00", "\x00\x00",
	"\xff\xfe", "\xff", "b", "ab", "aa", "a1", "a0", "A", "z", "zz", "~",
	"prefix-shared-0123456789-0123456789-a", "prefix-shared-0123456789-0123456789-b", "prefix-shared-0123456789-0123456789-",
	"key@10", "key@9", "key", "#", "?", "[", "aA", "a@0", "@1", "1",
	strings.Repeat("L", 200),
	// multi-byte UTF-8 neighbours: equal up to a lead byte, different continuation byte; a code
	// point whose value equals a byte of the neighbour (U+00C3 after 0xC3 ...)
	"ключ-а", "ключ-д", "PÁO", "PÃO", "é", "è", "\u00c3\u0083", "日本", "日曜",
	// long keys that only differ after their first 64 / 100 bytes
	strings.Repeat("p", 70) + "-1", strings.Repeat("p", 70) + "-2", strings.Repeat("q", 100) + "/a", strings.Repeat("q", 100) + "/b",
}

// PoolBase is the part of the pool without the long / multi-byte families (checks that enumerate
// all (key, ts) pairs keep their universes small).
var PoolBase = Pool[:41]

// Sibling names, for keys that only make an ordering / prefix trap together with another key,
// that other key; generators add the sibling of a drawn key half of the time.
var Sibling = map[string]string{}

func init() {
	pairs := [][2]string{
		{"ключ-а", "ключ-д"}, {"PÁO", "PÃO"}, {"é", "è"}, {"日本", "日曜"},
		{strings.Repeat("p", 70) + "-1", strings.Repeat("p", 70) + "-2"}, {strings.Repeat("q", 100) + "/a", strings.Repeat("q", 100) + "/b"},
		{"prefix-shared-0123456789-0123456789-a", "prefix-shared-0123456789-0123456789-b"},
		{"a", "a@1"}, {"a@1", "a@1@2"}, {"key", "key@10"}, {"key@10", "key@9"}, {"k1", "k10"}, {"a!", "a@"}, {"\x00", "\x00\x00"},
	}
	for _, p := range pairs {
		Sibling[p[0]] = p[1]
		if _, ok := Sibling[p[1]]; !ok {
			Sibling[p[1]] = p[0]
		}
	}
}

// VKey builds the canonical versioned key the way every caller in the engine does.
func VKey(user string, ts uint64) string {
	return user + "@" + strconv.FormatUint(ts, 10)
}

// SplitV splits a versioned key at the LAST '@' (independent of types.ParseKey).
func SplitV(vk string) (string, uint64) {
	i := strings.LastIndexByte(vk, '@')
	if i < 0 {
		return vk, 0
	}
	n, err := strconv.ParseUint(vk[i+1:], 10, 64)
	if err != nil {
		return vk[:i], 0
	}
	return vk[:i], n
}

// LessV is the reference order M4: user key ascending (bytewise), version descending.
func LessV(a, b string) bool {
	ua, ta := SplitV(a)
	ub, tb := SplitV(b)
	if ua != ub {
		return ua < ub
	}
	return ta > tb
}

// CmpV is LessV as a three-way comparison.
func CmpV(a, b string) int {
	if LessV(a, b) {
		return -1
	}
	if LessV(b, a) {
		return 1
	}
	return 0
}

// E is the reference representation of a stored version.
type E struct {
	Key  Str    `json:"k"` // user key
	Ts   uint64 `json:"ts"`
	Val  Str    `json:"v"`
	Tomb bool   `json:"tomb,omitempty"`
}

func (e E) VK() string { return VKey(string(e.Key), e.Ts) }

// SortedV sorts entries in reference order (stable for equal versioned keys).
func SortedV(es []E) []E {
	out := append([]E(nil), es...)
	sort.SliceStable(out, func(i, j int) bool { return LessV(out[i].VK(), out[j].VK()) })
	return out
}

// Best is the reference lookup: the entry of user key k with the largest
// version not above ts among es, later entries of the same versioned key
// overriding earlier ones.
func Best(es []E, k string, ts uint64) (E, bool) {
	var best E
	found := false
	for _, e := range es {
		if string(e.Key) != k || e.Ts > ts {
			continue
		}
		if !found || e.Ts >= best.Ts {
			best, found = e, true
		}
	}
	return best, found
}
