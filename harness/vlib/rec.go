// Package vlib holds what every check shares: the per-shard recorder that turns
// executed cases into evidence counts, the replay plumbing, a quiet logger for
// the engine and the reference order on versioned keys.
package vlib

import (
	"crypto/sha256"
	"encoding/hex"
	"encoding/json"
	"fmt"
	"os"
	"path/filepath"
	"sort"
	"strconv"
	"sync"
	"testing"
	"time"

	"github.com/B1NARY-GR0UP/originium/pkg/logger"
)

// Violation is what a check found; the driver turns it into the replay file.
type Violation struct {
	Property string          `json:"property"`
	Kind     string          `json:"kind"`
	Message  string          `json:"message"`
	Case     json.RawMessage `json:"case"`
	Test     string          `json:"test"`
	Extra    any             `json:"extra,omitempty"`
}

type shardFile struct {
	Property    string            `json:"property"`
	Shard       int               `json:"shard"`
	Evaluations int64             `json:"evaluations"`
	Nontrivial  []string          `json:"nontrivial_hashes"`
	Classes     map[string]int64  `json:"classes"`
	Counters    map[string]int64  `json:"counters"`
	Samples     []json.RawMessage `json:"samples"`
	Known       map[string]int64  `json:"known_findings"`
	Notes       []string          `json:"notes,omitempty"`
	WallS       float64           `json:"wall_s"`
	Complete    bool              `json:"complete"`
	SlowestS    float64           `json:"slowest_case_s"`
	SlowestCase json.RawMessage   `json:"slowest_case,omitempty"`
}

// Rec collects the evidence of one property in one shard process.
type Rec struct {
	mu       sync.Mutex
	prop     string
	test     string
	dir      string
	shard    int
	evals    int64
	nontriv  map[string]struct{}
	classes  map[string]int64
	counters map[string]int64
	known    map[string]int64
	samples  []json.RawMessage
	notes    []string
	start    time.Time
	nviol    int
	maxSamp  int
	began    time.Time
	slowest  float64
	slowCase json.RawMessage
}

var (
	regMu sync.Mutex
	recs  = map[string]*Rec{}
)

func outDir() string {
	d := os.Getenv("VERIF_OUT")
	if d == "" {
		d = filepath.Join("/dev/shm", "verif-adhoc-"+strconv.Itoa(os.Getpid()))
	}
	_ = os.MkdirAll(d, 0o755)
	return d
}

func shardNo() int {
	if os.Getenv("VERIF_FUZZ") == "1" {
		// native fuzzing runs the property in several worker processes that share the environment
		return 100000 + os.Getpid()
	}
	n, _ := strconv.Atoi(os.Getenv("VERIF_SHARD"))
	return n
}

// For returns the recorder of a property (one per process and property).
func For(prop, test string) *Rec {
	regMu.Lock()
	defer regMu.Unlock()
	if r, ok := recs[prop]; ok {
		return r
	}
	r := &Rec{
		prop: prop, test: test, dir: outDir(), shard: shardNo(),
		nontriv: map[string]struct{}{}, classes: map[string]int64{},
		counters: map[string]int64{}, known: map[string]int64{},
		start: time.Now(), maxSamp: 4,
	}
	recs[prop] = r
	return r
}

func hashOf(b []byte) string {
	h := sha256.Sum256(b)
	return hex.EncodeToString(h[:8])
}

// Begin records the case that is about to run, so that a process death
// (engine panic in a background goroutine, race abort, watchdog) still
// leaves the input behind.
func (r *Rec) Begin(c []byte) {
	r.mu.Lock()
	r.began = time.Now()
	r.mu.Unlock()
	_ = os.WriteFile(filepath.Join(r.dir, fmt.Sprintf("current_case_%s_%d.json", r.prop, r.shard)), c, 0o644)
}

// End counts one executed case.
func (r *Rec) End(c []byte, nontrivial bool, classes ...string) {
	r.mu.Lock()
	defer r.mu.Unlock()
	r.evals++
	if !r.began.IsZero() {
		if d := time.Since(r.began).Seconds(); d > r.slowest {
			r.slowest = d
			if len(c) < 200000 {
				r.slowCase = append(json.RawMessage(nil), c...)
			}
		}
	}
	for _, k := range classes {
		r.classes[k]++
	}
	if nontrivial {
		h := hashOf(c)
		if _, ok := r.nontriv[h]; !ok {
			r.nontriv[h] = struct{}{}
			if len(r.samples) < r.maxSamp && len(c) < 20000 {
				r.samples = append(r.samples, append(json.RawMessage(nil), c...))
			}
		}
	}
}

// Count adds to a free-form counter reported in the evidence.
func (r *Rec) Count(name string, n int64) {
	r.mu.Lock()
	r.counters[name] += n
	r.mu.Unlock()
}

// Known counts a case that matched a recorded finding (excluded, not judged).
func (r *Rec) Known(id string) {
	r.mu.Lock()
	r.known[id]++
	r.mu.Unlock()
}

func (r *Rec) Note(s string) {
	r.mu.Lock()
	if len(r.notes) < 20 {
		r.notes = append(r.notes, s)
	}
	r.mu.Unlock()
}

// Violation writes the failing case at once (rapid re-runs the minimal case
// last while shrinking, so the file ends up holding the shrunk one).
func (r *Rec) Violation(kind, msg string, c []byte, extra any) {
	r.mu.Lock()
	r.nviol++
	r.mu.Unlock()
	v := Violation{Property: r.prop, Kind: kind, Message: msg, Case: c, Test: r.test, Extra: extra}
	b, err := json.MarshalIndent(v, "", " ")
	if err != nil {
		b = []byte(fmt.Sprintf(`{"property":%q,"kind":%q,"message":%q}`, r.prop, kind, msg))
	}
	_ = os.WriteFile(filepath.Join(r.dir, fmt.Sprintf("violation_%s_%d.json", r.prop, r.shard)), b, 0o644)
}

func (r *Rec) flush(complete bool) {
	r.mu.Lock()
	defer r.mu.Unlock()
	sf := shardFile{
		Property: r.prop, Shard: r.shard, Evaluations: r.evals,
		Classes: r.classes, Counters: r.counters, Samples: r.samples,
		Known: r.known, Notes: r.notes,
		WallS: time.Since(r.start).Seconds(), Complete: complete,
		SlowestS: r.slowest, SlowestCase: r.slowCase,
	}
	for h := range r.nontriv {
		sf.Nontrivial = append(sf.Nontrivial, h)
	}
	sort.Strings(sf.Nontrivial)
	b, _ := json.Marshal(sf)
	tmp := filepath.Join(r.dir, fmt.Sprintf(".shard_%s_%d.tmp", r.prop, r.shard))
	if os.WriteFile(tmp, b, 0o644) == nil {
		_ = os.Rename(tmp, filepath.Join(r.dir, fmt.Sprintf("shard_%s_%d.json", r.prop, r.shard)))
	}
}

// FlushAll writes every recorder's shard file.
func FlushAll(complete bool) {
	regMu.Lock()
	var all []*Rec
	for _, r := range recs {
		all = append(all, r)
	}
	regMu.Unlock()
	for _, r := range all {
		r.flush(complete)
	}
}

// Main wraps testing.M: quiet engine logger, periodic and final shard flush.
func Main(m *testing.M) int {
	logger.SetLogger(Quiet{})
	stop := make(chan struct{})
	go func() {
		t := time.NewTicker(3 * time.Second)
		defer t.Stop()
		for {
			select {
			case <-t.C:
				FlushAll(false)
			case <-stop:
				return
			}
		}
	}()
	code := m.Run()
	close(stop)
	FlushAll(true)
	return code
}

// ReplayCase returns the case named by VERIF_REPLAY (a violation file or a
// bare case), or nil when the process is not a replay.
func ReplayCase() []byte {
	p := os.Getenv("VERIF_REPLAY")
	if p == "" {
		return nil
	}
	b, err := os.ReadFile(p)
	if err != nil {
		fmt.Fprintf(os.Stderr, "cannot read replay file: %v\n", err)
		os.Exit(2)
	}
	var v Violation
	if json.Unmarshal(b, &v) == nil && len(v.Case) > 0 {
		return v.Case
	}
	return b
}

// IntEnv reads an integer knob passed by the driver.
func IntEnv(name string, def int) int {
	if s := os.Getenv(name); s != "" {
		if n, err := strconv.Atoi(s); err == nil {
			return n
		}
	}
	return def
}

// Quiet drops the engine's log lines but keeps Panicf a panic.
type Quiet struct{}

func (Quiet) Debugf(string, ...any) {}
func (Quiet) Infof(string, ...any)  {}
func (Quiet) Warnf(string, ...any)  {}
func (Quiet) Errorf(string, ...any) {}
func (Quiet) Fatalf(string, ...any) {}
func (Quiet) Panicf(format string, args ...any) {
	panic(fmt.Sprintf(format, args...))
}

// JSON is json.Marshal that cannot fail for the plain structs used as cases.
func JSON(v any) []byte {
	b, err := json.Marshal(v)
	if err != nil {
		panic(err)
	}
	return b
}
