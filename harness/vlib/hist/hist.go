// Package hist records transaction histories and decides them with porcupine,
// treating whole transactions as operations (DESIGN.md §6 M3).
package hist

import (
	"fmt"
	"sort"
	"strconv"
	"strings"
	"time"

	"github.com/anishathalye/porcupine"
)

// Read is a Get that was served by the store (not by the transaction's own buffer).
type Read struct {
	K     int    `json:"k"`
	V     string `json:"v"`
	Found bool   `json:"found"`
}

// Write is one entry of the write buffer at commit time.
type Write struct {
	K   int    `json:"k"`
	V   string `json:"v"`
	Del bool   `json:"del,omitempty"`
}

// Txn is one transaction with its call/return stamps (logical counter or nanoseconds).
type Txn struct {
	ID        int     `json:"id"`
	Client    int     `json:"client"`
	RW        bool    `json:"rw"`
	BeginCall int64   `json:"begin_call"`
	BeginRet  int64   `json:"begin_ret"`
	EndCall   int64   `json:"end_call"` // Commit/Discard called
	EndRet    int64   `json:"end_ret"`
	Reads     []Read  `json:"reads,omitempty"`
	Writes    []Write `json:"writes,omitempty"`
	Outcome   string  `json:"outcome"` // commit | conflict | discard
}

type txnIn struct {
	reads  []Read
	writes []Write
	id     int
}

// state: canonical string "<key index>:<length>:<value>..." of the present keys, sorted by key
// index (length-prefixed: values may contain any byte).
func decode(s string) map[int]string {
	m := map[int]string{}
	for len(s) > 0 {
		i := strings.IndexByte(s, ':')
		k, _ := strconv.Atoi(s[:i])
		s = s[i+1:]
		j := strings.IndexByte(s, ':')
		n, _ := strconv.Atoi(s[:j])
		s = s[j+1:]
		m[k] = s[:n]
		s = s[n:]
	}
	return m
}

func encode(m map[int]string) string {
	ks := make([]int, 0, len(m))
	for k := range m {
		ks = append(ks, k)
	}
	sort.Ints(ks)
	var b strings.Builder
	for _, k := range ks {
		b.WriteString(strconv.Itoa(k))
		b.WriteByte(':')
		b.WriteString(strconv.Itoa(len(m[k])))
		b.WriteByte(':')
		b.WriteString(m[k])
	}
	return b.String()
}

var model = porcupine.Model{
	Init: func() interface{} { return "" },
	Step: func(st, in, out interface{}) (bool, interface{}) {
		m := decode(st.(string))
		t := in.(txnIn)
		for _, r := range t.reads {
			v, ok := m[r.K]
			if ok != r.Found || (ok && v != r.V) {
				return false, st
			}
		}
		if len(t.writes) == 0 {
			return true, st
		}
		for _, w := range t.writes {
			if w.Del {
				delete(m, w.K)
			} else {
				m[w.K] = w.V
			}
		}
		return true, encode(m)
	},
	Equal: func(a, b interface{}) bool { return a.(string) == b.(string) },
	DescribeOperation: func(in, out interface{}) string {
		t := in.(txnIn)
		return fmt.Sprintf("txn %d reads=%v writes=%v", t.id, t.reads, t.writes)
	},
}

// Result of a history check.
type Result struct {
	Verdict string // "ok" | "illegal" | "unknown"
	Ops     int
}

func run(ops []porcupine.Operation, initial map[int]string, timeout time.Duration) Result {
	m := model
	init := encode(initial)
	m.Init = func() interface{} { return init }
	r := porcupine.CheckOperationsTimeout(m, ops, timeout)
	v := "ok"
	switch r {
	case porcupine.Illegal:
		v = "illegal"
	case porcupine.Unknown:
		v = "unknown"
	}
	return Result{Verdict: v, Ops: len(ops)}
}

// CheckSerializable is the C06 history: every committed transaction (and every
// read-only one) is one operation over [Begin called, Commit/Discard returned].
func CheckSerializable(txns []Txn, initial map[int]string, timeout time.Duration) Result {
	var ops []porcupine.Operation
	for _, t := range txns {
		switch {
		case t.Outcome == "commit":
			ops = append(ops, porcupine.Operation{ClientId: t.Client, Input: txnIn{t.Reads, t.Writes, t.ID}, Call: t.BeginCall, Return: t.EndRet})
		case !t.RW:
			ops = append(ops, porcupine.Operation{ClientId: t.Client, Input: txnIn{t.Reads, nil, t.ID}, Call: t.BeginCall, Return: t.EndRet})
		}
	}
	return run(ops, initial, timeout)
}

// CheckSnapshots is the stronger C05 split history: the store reads of EVERY
// transaction form a read-only operation over [Begin called, Begin returned],
// every successful commit is a write-only operation over [Commit called,
// Commit returned]. Linearizable <=> one commit order exists of which every
// snapshot is a prefix and which respects real time.
func CheckSnapshots(txns []Txn, initial map[int]string, timeout time.Duration) Result {
	var ops []porcupine.Operation
	for _, t := range txns {
		if len(t.Reads) > 0 {
			ops = append(ops, porcupine.Operation{ClientId: t.Client, Input: txnIn{t.Reads, nil, t.ID}, Call: t.BeginCall, Return: t.BeginRet})
		}
		if t.Outcome == "commit" && len(t.Writes) > 0 {
			ops = append(ops, porcupine.Operation{ClientId: t.Client, Input: txnIn{nil, t.Writes, t.ID}, Call: t.EndCall, Return: t.EndRet})
		}
	}
	return run(ops, initial, timeout)
}

// OverAborts is the one-sided C07 check that needs no commit order: a
// transaction refused although no committed transaction whose commit interval
// ends after this one's Begin was called wrote any key it read from the store.
func OverAborts(txns []Txn) []int {
	var bad []int
	for _, t := range txns {
		if t.Outcome != "conflict" {
			continue
		}
		justified := false
		for _, u := range txns {
			if u.ID == t.ID || u.Outcome != "commit" || len(u.Writes) == 0 {
				continue
			}
			if u.EndRet < t.BeginCall || u.EndCall > t.EndRet {
				continue // committed entirely before t began, or started committing after t's commit returned
			}
			for _, w := range u.Writes {
				for _, r := range t.Reads {
					if r.K == w.K {
						justified = true
					}
				}
			}
		}
		if !justified {
			bad = append(bad, t.ID)
		}
	}
	return bad
}
