//go:build verif

package pure

import (
	"bytes"
	"encoding/json"
	"fmt"
	"math"
	"math/rand"
	"sort"
	"testing"

	"github.com/B1NARY-GR0UP/originium/pkg/skiplist"
	"github.com/B1NARY-GR0UP/originium/types"
	"pgregory.net/rapid"

	"verif/harness/vlib"
)

// ---- C17: the skiplist behaves as a sorted map of versioned keys ----------

type slOp struct {
	Op   string   `json:"op"` // set get lower scan all delete reset
	Key  vlib.Str `json:"k,omitempty"`
	Ts   uint64   `json:"ts,omitempty"`
	Key2 vlib.Str `json:"k2,omitempty"`
	Ts2  uint64   `json:"ts2,omitempty"`
	Val  vlib.Str `json:"v,omitempty"`
	Tomb bool     `json:"tomb,omitempty"`
}

type slCase struct {
	MaxLevel int     `json:"max_level"`
	P        float64 `json:"p"`
	Seed     int64   `json:"seed"`
	Ops      []slOp  `json:"ops"`
}

var slVersions = []uint64{0, 1, 2, 3, 4, 5, 6, 7, 8, 9, 10, 11, 12, 99, 100, 1 << 32, 1 << 63, math.MaxUint64}

func genSLCase(t *rapid.T) slCase {
	c := slCase{
		MaxLevel: rapid.OneOf(rapid.IntRange(1, 16), rapid.SampledFrom([]int{1, 2, 17, 32, 33, 64})).Draw(t, "maxLevel"),
		P:        rapid.SampledFrom([]float64{0.01, 0.1, 0.25, 0.5, 0.75, 0.9, 0.99}).Draw(t, "p"),
		Seed:     rapid.Int64().Draw(t, "seed"),
	}
	nkeys := rapid.IntRange(1, 8).Draw(t, "nkeys")
	keys := make([]string, nkeys)
	for i := range keys {
		keys[i] = rapid.SampledFrom(vlib.Pool).Draw(t, "poolkey")
	}
	key := rapid.SampledFrom(keys)
	ver := rapid.OneOf(rapid.Uint64Range(0, 12), rapid.SampledFrom(slVersions))
	val := rapid.OneOf(rapid.Just(""), rapid.StringN(0, 6, 12))
	n := rapid.IntRange(1, 70).Draw(t, "nops")
	if rapid.IntRange(0, 19).Draw(t, "long") == 0 {
		// now and then a long history over a wider universe (hundreds of live entries, tall towers)
		n = rapid.IntRange(300, 1500).Draw(t, "nopsLong")
		for i := 0; i < 30; i++ {
			keys = append(keys, rapid.SampledFrom(vlib.Pool).Draw(t, "poolkey2"))
		}
		key = rapid.SampledFrom(keys)
		ver = rapid.OneOf(rapid.Uint64Range(0, 60), rapid.SampledFrom(slVersions))
	}
	for i := 0; i < n; i++ {
		o := slOp{Op: rapid.SampledFrom([]string{"set", "set", "set", "set", "get", "lower", "lower", "scan", "all", "delete", "reset"}).Draw(t, "op")}
		if o.Op == "reset" && rapid.IntRange(0, 9).Draw(t, "resetRare") != 0 {
			o.Op = "set"
		}
		switch o.Op {
		case "set":
			o.Key, o.Ts = vlib.Str(key.Draw(t, "k")), ver.Draw(t, "ts")
			o.Val = vlib.Str(val.Draw(t, "v"))
			o.Tomb = rapid.Bool().Draw(t, "tomb")
		case "get", "lower", "delete":
			o.Key, o.Ts = vlib.Str(rapid.OneOf(key, rapid.SampledFrom(vlib.Pool)).Draw(t, "k")), ver.Draw(t, "ts")
		case "scan":
			o.Key, o.Ts = vlib.Str(rapid.OneOf(key, rapid.SampledFrom(vlib.Pool)).Draw(t, "k")), ver.Draw(t, "ts")
			o.Key2, o.Ts2 = vlib.Str(rapid.OneOf(key, rapid.SampledFrom(vlib.Pool)).Draw(t, "k2")), ver.Draw(t, "ts2")
		}
		c.Ops = append(c.Ops, o)
	}
	return c
}

type slRef struct {
	vk   string
	val  string
	tomb bool
	ver  int64
}

func entryEq(e types.Entry, r slRef) bool {
	return e.Key == r.vk && bytes.Equal(e.Value, []byte(r.val)) && e.Tombstone == r.tomb && e.Version == r.ver
}

func fmtEntry(e types.Entry) string {
	return fmt.Sprintf("{%q %q tomb=%v ver=%d}", e.Key, e.Value, e.Tombstone, e.Version)
}

func listEq(got []types.Entry, want []slRef) string {
	if len(got) != len(want) {
		return fmt.Sprintf("length %d, model %d", len(got), len(want))
	}
	for i := range got {
		if !entryEq(got[i], want[i]) {
			return fmt.Sprintf("position %d: got %s, model {%q %q tomb=%v ver=%d}", i, fmtEntry(got[i]), want[i].vk, want[i].val, want[i].tomb, want[i].ver)
		}
	}
	return ""
}

// runSL interprets a case against the real skiplist and a sorted slice.
// It returns a message on the first disagreement, plus the class flags.
func runSL(c slCase) (msg string, nontrivial bool, classes []string) {
	defer func() {
		if r := recover(); r != nil {
			msg = fmt.Sprintf("panic: %v", r)
		}
	}()
	rng := rand.New(rand.NewSource(c.Seed))
	sl := skiplist.New(c.MaxLevel, c.P)
	sl.VerifSetRand(rng)
	var model []slRef // kept sorted by vlib.LessV
	find := func(vk string) (int, bool) {
		i := sort.Search(len(model), func(i int) bool { return !vlib.LessV(model[i].vk, vk) })
		return i, i < len(model) && model[i].vk == vk
	}
	var overwrite, midDelete, crossAfterDelete, big bool
	deletedAt := ""
	for step, o := range c.Ops {
		vk := vlib.VKey(string(o.Key), o.Ts)
		switch o.Op {
		case "set":
			sl.Set(types.Entry{Key: vk, Value: []byte(o.Val), Tombstone: o.Tomb, Version: int64(o.Ts)})
			i, ok := find(vk)
			if ok {
				model[i].val, model[i].tomb = string(o.Val), o.Tomb
				overwrite = true
			} else {
				model = append(model, slRef{})
				copy(model[i+1:], model[i:])
				model[i] = slRef{vk: vk, val: string(o.Val), tomb: o.Tomb, ver: int64(o.Ts)}
			}
			if len(model) >= 8 {
				big = true
			}
		case "get":
			got, ok := sl.Get(vk)
			i, mok := find(vk)
			if ok != mok || (ok && !entryEq(got, model[i])) {
				return fmt.Sprintf("step %d Get(%q): got %s,%v; model present=%v", step, vk, fmtEntry(got), ok, mok), false, nil
			}
		case "lower":
			got, ok := sl.LowerBound(vk)
			i, _ := find(vk)
			mok := i < len(model)
			if ok != mok || (ok && !entryEq(got, model[i])) {
				return fmt.Sprintf("step %d LowerBound(%q): got %s,%v; model index %d of %d", step, vk, fmtEntry(got), ok, i, len(model)), false, nil
			}
			if deletedAt != "" && !vlib.LessV(deletedAt, vk) {
				crossAfterDelete = true
			}
		case "scan":
			vk2 := vlib.VKey(string(o.Key2), o.Ts2)
			got := sl.Scan(vk, vk2)
			var want []slRef
			for _, m := range model {
				if !vlib.LessV(m.vk, vk) && vlib.LessV(m.vk, vk2) {
					want = append(want, m)
				}
			}
			if d := listEq(got, want); d != "" {
				return fmt.Sprintf("step %d Scan(%q,%q): %s", step, vk, vk2, d), false, nil
			}
			if deletedAt != "" && !vlib.LessV(deletedAt, vk) && vlib.LessV(deletedAt, vk2) {
				crossAfterDelete = true
			}
		case "all":
			if d := listEq(sl.All(), model); d != "" {
				return fmt.Sprintf("step %d All: %s", step, d), false, nil
			}
		case "delete":
			got := sl.Delete(vk)
			i, mok := find(vk)
			if got != mok {
				return fmt.Sprintf("step %d Delete(%q): got %v, model %v", step, vk, got, mok), false, nil
			}
			if mok {
				if i > 0 && i < len(model)-1 {
					midDelete = true
					deletedAt = vk
				}
				model = append(model[:i], model[i+1:]...)
			}
		case "reset":
			sl = sl.Reset()
			sl.VerifSetRand(rng)
			model = nil
			deletedAt = ""
		}
	}
	if d := listEq(sl.All(), model); d != "" {
		return "final All: " + d, false, nil
	}
	for i, m := range model {
		got, ok := sl.Get(m.vk)
		if !ok || !entryEq(got, m) {
			return fmt.Sprintf("final Get(%q) of model entry %d: got %s,%v", m.vk, i, fmtEntry(got), ok), false, nil
		}
	}
	if overwrite {
		classes = append(classes, "overwrite")
	}
	if midDelete {
		classes = append(classes, "delete_middle")
	}
	if crossAfterDelete {
		classes = append(classes, "query_crossing_deleted")
	}
	if big {
		classes = append(classes, "ge8_entries")
	}
	if c.MaxLevel == 1 {
		classes = append(classes, "maxlevel_1")
	}
	return "", big && overwrite && midDelete && crossAfterDelete, classes
}

func TestC17(t *testing.T) {
	rec := vlib.For("C17", "TestC17")
	if rc := vlib.ReplayCase(); rc != nil {
		var c slCase
		if err := json.Unmarshal(rc, &c); err != nil {
			t.Fatalf("bad replay case: %v", err)
		}
		if msg, _, _ := runSL(c); msg != "" {
			rec.Violation("skiplist_vs_sorted_map", msg, rc, nil)
			t.Fatalf("%s", msg)
		}
		return
	}
	rapid.Check(t, propC17)
}

func propC17(rt *rapid.T) {
	rec := vlib.For("C17", "TestC17")
	c := rapid.Custom(genSLCase).Draw(rt, "case")
	cj := vlib.JSON(c)
	rec.Begin(cj)
	msg, nt, classes := runSL(c)
	rec.End(cj, nt, classes...)
	if msg != "" {
		rec.Violation("skiplist_vs_sorted_map", msg, cj, nil)
		rt.Fatalf("%s", msg)
	}
}

// FuzzC17 hands the same property to Go's coverage-guided fuzzer (thorough tier only).
func FuzzC17(f *testing.F) { f.Fuzz(rapid.MakeFuzz(propC17)) }
