//go:build verif

package pure

import (
	"context"
	"encoding/json"
	"fmt"
	"math/rand"
	"runtime"
	"sort"
	"strings"
	"sync"
	"sync/atomic"
	"testing"
	"time"

	"github.com/B1NARY-GR0UP/originium/pkg/watermark"
	"pgregory.net/rapid"

	"verif/harness/vlib"
)

// ---- C13: the watermark never passes unfinished work and always catches up ----

type wmOp struct {
	Op    string `json:"op"` // begin done udone wait cancel burst
	Inc   int    `json:"inc,omitempty"`
	Pick  int    `json:"pick,omitempty"`
	Delta int    `json:"delta,omitempty"`
	Ctx   string `json:"ctx,omitempty"` // bg | cancelled | later
	N     int    `json:"n,omitempty"`
	Seed  int64  `json:"seed,omitempty"`
}

type wmCase struct {
	Start uint64 `json:"start"` // first index handed out
	Ops   []wmOp `json:"ops"`
}

func genWMCase(t *rapid.T) wmCase {
	c := wmCase{Start: rapid.SampledFrom([]uint64{0, 0, 1, 5, 99, 100, 1000, 1<<32 - 2, 1 << 40, 1<<63 - 3, 1<<64 - 5000}).Draw(t, "start")}
	n := rapid.IntRange(1, 60).Draw(t, "nops")
	if rapid.IntRange(0, 24).Draw(t, "long") == 0 {
		n = rapid.IntRange(200, 700).Draw(t, "nopsLong") // hundreds of outstanding indices and waiters
	}
	for i := 0; i < n; i++ {
		o := wmOp{Op: rapid.SampledFrom([]string{"begin", "begin", "begin", "done", "done", "done", "udone", "wait", "wait", "cancel", "burst", "pile"}).Draw(t, "op")}
		switch o.Op {
		case "begin":
			o.Inc = rapid.SampledFrom([]int{0, 0, 1, 1, 1, 2, 3, 10}).Draw(t, "inc")
		case "done", "cancel":
			o.Pick = rapid.IntRange(0, 1000).Draw(t, "pick")
		case "udone":
			o.Delta = rapid.IntRange(-3, 6).Draw(t, "delta")
		case "wait":
			o.Delta = rapid.IntRange(-4, 4).Draw(t, "delta")
			o.Ctx = rapid.SampledFrom([]string{"bg", "bg", "cancelled", "later"}).Draw(t, "ctx")
		case "pile":
			// many holders of ONE index at once (many transactions sharing a read timestamp)
			if rapid.IntRange(0, 3).Draw(t, "pileRare") != 0 {
				o.Op = "begin"
				o.Inc = 0
			} else {
				o.N = rapid.SampledFrom([]int{30, 127, 128, 129, 200, 300}).Draw(t, "pileN")
				o.Inc = rapid.SampledFrom([]int{0, 1}).Draw(t, "inc")
			}
		case "burst":
			if rapid.IntRange(0, 5).Draw(t, "burstRare") != 0 {
				o.Op = "begin"
				o.Inc = 1
			} else {
				o.N = rapid.IntRange(101, 260).Draw(t, "n")
				o.Seed = rapid.Int64().Draw(t, "seed")
			}
		}
		c.Ops = append(c.Ops, o)
	}
	return c
}

type wmWaiter struct {
	t      uint64
	cancel context.CancelFunc
	ctxEnd bool // context already ended when/after the call
	done   chan struct{}
	err    error
	dAtRet uint64
}

// goroutineDump returns all stacks (used only to qualify a liveness verdict).
func goroutineDump() string {
	buf := make([]byte, 1<<20)
	return string(buf[:runtime.Stack(buf, true)])
}

// The liveness verdict does not rest on the time-out: it convicts only when the
// goroutine dump shows that nothing can make progress any more. After the
// first conviction the watchdog shrinks so that rapid can minimise the case.
var wmConvicted atomic.Bool

func wmWatchdogDur() time.Duration {
	if wmConvicted.Load() {
		return 1500 * time.Millisecond
	}
	return 10 * time.Second
}

// syncWM is the FIFO barrier with a watchdog. VerifSync is a registered waiter
// for index 0 (always covered), so a barrier that never returns while the
// consumer sits idle is itself a lost wake-up.
func syncWM(w *watermark.WaterMark) string {
	done := make(chan struct{})
	go func() {
		w.VerifSync()
		close(done)
	}()
	select {
	case <-done:
		return ""
	case <-time.After(wmWatchdogDur()):
	}
	dump := goroutineDump()
	parked, idle := false, false
	for _, g := range strings.Split(dump, "\n\n") {
		if strings.Contains(g, "VerifSync") && strings.Contains(g, "[chan receive") {
			parked = true
		}
		if strings.Contains(g, "(*WaterMark).process") && strings.Contains(g, "[select") {
			idle = true
		}
	}
	if parked && idle {
		wmConvicted.Store(true)
		return "a registered waiter for index 0 (always covered) was not released; consumer idle in select"
	}
	return "INCONCLUSIVE: barrier watchdog fired but goroutines were not parked"
}

// awaitWaiter waits for a waiter that the model says must return.
// Returns "" if it returned, a violation text if the dump shows a genuine
// lost wake-up, or "INCONCLUSIVE..." if the watchdog fired for another reason.
func awaitWaiter(w *wmWaiter, why string) string {
	select {
	case <-w.done:
		return ""
	case <-time.After(wmWatchdogDur()):
	}
	dump := goroutineDump()
	parked := false
	for _, g := range strings.Split(dump, "\n\n") {
		if strings.Contains(g, "WaitForMark") && strings.Contains(g, "[select") {
			parked = true
		}
	}
	idle := false
	for _, g := range strings.Split(dump, "\n\n") {
		if strings.Contains(g, "(*WaterMark).process") && strings.Contains(g, "[select") {
			idle = true
		}
	}
	if parked && idle {
		wmConvicted.Store(true)
		return fmt.Sprintf("waiter for %d not released although %s; consumer idle in select, waiter parked", w.t, why)
	}
	return "INCONCLUSIVE: watchdog fired but goroutines were not parked: " + why
}

func runWM(c wmCase) (msg string, nontrivial bool, classes []string) {
	defer func() {
		if r := recover(); r != nil {
			msg = fmt.Sprintf("panic: %v", r)
		}
	}()
	w := watermark.New()
	defer w.Stop()
	cnt := map[uint64]int{}   // begun minus done, for indices not retired
	seen := map[uint64]bool{} // indices seen and not yet retired in the model
	next := c.Start
	begunAny := false
	var lower uint64 // model lower bound: max(prev observation, L)
	var prev uint64
	stoodAt := map[uint64]bool{} // index i was == DoneUntil when it was begun
	var waiters []*wmWaiter
	var outOfOrder, repeated, waiterReleasedLater, burst bool

	outstanding := func() []uint64 {
		var o []uint64
		for i, n := range cnt {
			if n > 0 {
				o = append(o, i)
			}
		}
		sort.Slice(o, func(a, b int) bool { return o[a] < o[b] })
		return o
	}
	// retire: every seen index below the smallest unfinished one is finished.
	retire := func() {
		o := outstanding()
		for i := range seen {
			if len(o) == 0 || i < o[0] {
				if cnt[i] <= 0 {
					if i > lower {
						lower = i
					}
					delete(seen, i)
					delete(cnt, i)
					delete(stoodAt, i)
				}
			}
		}
	}
	check := func(step int, what string) string {
		if m := syncWM(w); m != "" {
			return fmt.Sprintf("step %d (%s): %s", step, what, m)
		}
		d := w.DoneUntil()
		if d < prev {
			return fmt.Sprintf("step %d (%s): DoneUntil decreased from %d to %d", step, what, prev, d)
		}
		if d < lower {
			return fmt.Sprintf("step %d (%s): DoneUntil=%d although every begun index up to %d is finished", step, what, d, lower)
		}
		if o := outstanding(); len(o) > 0 {
			u := o[0]
			if d > u || (d == u && !stoodAt[u]) {
				return fmt.Sprintf("step %d (%s): DoneUntil=%d reached/passed unfinished index %d", step, what, d, u)
			}
		}
		prev = d
		if d > lower {
			lower = d
		}
		// every waiter whose target is covered must return nil
		for _, wt := range waiters {
			if wt.t <= d {
				select {
				case <-wt.done:
				default:
					if m := awaitWaiter(wt, fmt.Sprintf("DoneUntil=%d >= %d", d, wt.t)); m != "" {
						return fmt.Sprintf("step %d (%s): %s", step, what, m)
					}
					waiterReleasedLater = true
				}
			}
		}
		for _, wt := range waiters {
			select {
			case <-wt.done:
				if wt.err == nil && wt.dAtRet < wt.t {
					return fmt.Sprintf("step %d (%s): WaitForMark(%d) returned nil while DoneUntil was %d", step, what, wt.t, wt.dAtRet)
				}
				if wt.err != nil && !wt.ctxEnd {
					return fmt.Sprintf("step %d (%s): WaitForMark(%d) returned %v although its context is alive", step, what, wt.t, wt.err)
				}
			default:
			}
		}
		return ""
	}

	for step, o := range c.Ops {
		switch o.Op {
		case "begin":
			if begunAny {
				next += uint64(o.Inc)
			}
			begunAny = true
			if cnt[next] > 0 {
				repeated = true
			}
			// i >= DoneUntil holds by construction; note whether it stands exactly there
			if w.DoneUntil() == next && cnt[next] <= 0 {
				stoodAt[next] = true
			}
			w.Begin(next)
			cnt[next]++
			seen[next] = true
		case "pile":
			if begunAny {
				next += uint64(o.Inc)
			}
			begunAny = true
			if w.DoneUntil() == next && cnt[next] <= 0 {
				stoodAt[next] = true
			}
			for k := 0; k < o.N; k++ {
				w.Begin(next)
			}
			cnt[next] += o.N
			seen[next] = true
			repeated = true
			classes = appendOnce(classes, "pile_of_holders_of_one_index")
		case "done":
			out := outstanding()
			if len(out) == 0 {
				continue
			}
			i := out[o.Pick%len(out)]
			if i != out[0] {
				outOfOrder = true
			}
			w.Done(i)
			cnt[i]--
			retire()
		case "udone":
			// Done without Begin, the way Open uses it: only on an idle mark
			if len(outstanding()) != 0 {
				continue
			}
			i := int64(next) + int64(o.Delta)
			if i < 0 {
				i = 0
			}
			w.Done(uint64(i))
			seen[uint64(i)] = true
			cnt[uint64(i)]--
			if uint64(i) > next {
				next = uint64(i)
			}
			begunAny = true
			retire()
			classes = appendOnce(classes, "done_without_begin")
		case "wait":
			ti := int64(next) + int64(o.Delta)
			if ti < 0 {
				ti = 0
			}
			ctx, cancel := context.WithCancel(context.Background())
			wt := &wmWaiter{t: uint64(ti), cancel: cancel, done: make(chan struct{})}
			if o.Ctx == "cancelled" {
				cancel()
				wt.ctxEnd = true
			}
			go func() {
				wt.err = w.WaitForMark(ctx, wt.t)
				wt.dAtRet = w.DoneUntil()
				close(wt.done)
			}()
			waiters = append(waiters, wt)
			if o.Ctx == "cancelled" {
				// must return promptly either way (nil if already covered, ctx error otherwise)
				if m := awaitWaiter(wt, "its context was cancelled before the call"); m != "" {
					return fmt.Sprintf("step %d: %s", step, m), false, nil
				}
				if wt.err == nil && wt.dAtRet < wt.t {
					return fmt.Sprintf("step %d: WaitForMark(%d) with cancelled context returned nil while DoneUntil=%d", step, wt.t, wt.dAtRet), false, nil
				}
				classes = appendOnce(classes, "wait_cancelled_ctx")
			}
		case "cancel":
			var pend []*wmWaiter
			for _, wt := range waiters {
				select {
				case <-wt.done:
				default:
					pend = append(pend, wt)
				}
			}
			if len(pend) == 0 {
				continue
			}
			wt := pend[o.Pick%len(pend)]
			wt.ctxEnd = true
			wt.cancel()
			if m := awaitWaiter(wt, "its context was cancelled"); m != "" {
				return fmt.Sprintf("step %d: %s", step, m), false, nil
			}
			classes = appendOnce(classes, "wait_cancelled_later")
		case "burst":
			// more marks in flight than the channel buffer, from a helper goroutine
			burst = true
			base := next + 1
			idx := make([]uint64, o.N)
			for k := range idx {
				idx[k] = base + uint64(k/2) // every index twice -> repeated indices
			}
			order := rand.New(rand.NewSource(o.Seed)).Perm(o.N)
			var wg sync.WaitGroup
			wg.Add(1)
			go func() {
				defer wg.Done()
				for _, i := range idx {
					w.Begin(i)
				}
				for _, k := range order {
					w.Done(idx[k])
				}
			}()
			stop := make(chan struct{})
			var mono string
			var pw sync.WaitGroup
			pw.Add(1)
			go func() {
				defer pw.Done()
				last := prev
				for {
					select {
					case <-stop:
						return
					default:
					}
					d := w.DoneUntil()
					if d < last {
						mono = fmt.Sprintf("DoneUntil decreased from %d to %d during a burst", last, d)
						return
					}
					last = d
					runtime.Gosched()
				}
			}()
			wg.Wait()
			close(stop)
			pw.Wait()
			if mono != "" {
				return fmt.Sprintf("step %d: %s", step, mono), false, nil
			}
			next = idx[len(idx)-1]
			for _, i := range idx {
				seen[i] = true
			}
			retire()
		}
		if m := check(step, o.Op); m != "" {
			return m, false, nil
		}
	}
	// finish everything: the mark must catch up and release every waiter
	for _, i := range outstanding() {
		for cnt[i] > 0 {
			w.Done(i)
			cnt[i]--
		}
	}
	retire()
	if m := check(len(c.Ops), "drain"); m != "" {
		return m, false, nil
	}
	for _, wt := range waiters {
		select {
		case <-wt.done:
		default:
			// target beyond everything begun: only its context can end it
			wt.ctxEnd = true
			wt.cancel()
			if m := awaitWaiter(wt, "its context was cancelled at the end"); m != "" {
				return "end: " + m, false, nil
			}
			if wt.err == nil && wt.dAtRet < wt.t {
				return fmt.Sprintf("end: WaitForMark(%d) returned nil while DoneUntil=%d", wt.t, wt.dAtRet), false, nil
			}
		}
	}
	if outOfOrder {
		classes = append(classes, "out_of_order")
	}
	if repeated {
		classes = append(classes, "repeated_index")
	}
	if waiterReleasedLater {
		classes = append(classes, "waiter_released_by_later_done")
	}
	if burst {
		classes = append(classes, "burst_over_buffer")
	}
	return "", outOfOrder && repeated && waiterReleasedLater, classes
}

func appendOnce(s []string, v string) []string {
	for _, x := range s {
		if x == v {
			return s
		}
	}
	return append(s, v)
}

func wmReport(rec *vlib.Rec, msg string, cj []byte, fatal func(string, ...any)) {
	if strings.HasPrefix(msg, "INCONCLUSIVE") || strings.Contains(msg, "INCONCLUSIVE:") {
		rec.Note(msg)
		return
	}
	kind := "watermark_bound"
	if strings.Contains(msg, "not released") {
		kind = "watermark_lost_wakeup"
	}
	rec.Violation(kind, msg, cj, nil)
	fatal("%s", msg)
}

func TestC13(t *testing.T) {
	rec := vlib.For("C13", "TestC13")
	if rc := vlib.ReplayCase(); rc != nil {
		var c wmCase
		if err := json.Unmarshal(rc, &c); err != nil {
			t.Fatalf("bad replay case: %v", err)
		}
		if msg, _, _ := runWM(c); msg != "" {
			wmReport(rec, msg, rc, t.Fatalf)
		}
		return
	}
	rapid.Check(t, propC13)
}

func propC13(rt *rapid.T) {
	rec := vlib.For("C13", "TestC13")
	c := rapid.Custom(genWMCase).Draw(rt, "case")
	cj := vlib.JSON(c)
	rec.Begin(cj)
	msg, nt, classes := runWM(c)
	rec.End(cj, nt, classes...)
	if msg != "" {
		wmReport(rec, msg, cj, rt.Fatalf)
	}
}

// FuzzC13 hands the same property to Go's coverage-guided fuzzer (thorough tier only).
func FuzzC13(f *testing.F) { f.Fuzz(rapid.MakeFuzz(propC13)) }

// ---- concurrent half: the mark used the way the oracle uses it ------------

type wmConcCase struct {
	Goroutines int   `json:"goroutines"`
	Iters      int   `json:"iters"`
	Seed       int64 `json:"seed"`
	IncPct     int   `json:"inc_pct"`  // chance that taking an index also advances the counter
	WaitPct    int   `json:"wait_pct"` // chance that a worker also waits for an earlier index
	HoldPct    int   `json:"hold_pct"` // chance that Done is handed to another goroutine
	Crowd      int   `json:"crowd"`    // size of the crowds of waiters on one index (0: single waiters only)
}

func runWMConc(c wmConcCase) (msg string, nontrivial bool, classes []string) {
	w := watermark.New()
	defer w.Stop()
	var mu sync.Mutex
	next := uint64(1)
	takers := map[uint64]int{}
	var maxIdx uint64
	var fail struct {
		sync.Mutex
		msg string
	}
	setFail := func(s string) {
		fail.Lock()
		if fail.msg == "" {
			fail.msg = s
		}
		fail.Unlock()
	}
	handoff := make(chan uint64, c.Goroutines*c.Iters+1)
	var waiters []*wmWaiter
	var wmu sync.Mutex
	var wg sync.WaitGroup
	var strictChecks, sharedIdx, handed int64
	var smu sync.Mutex
	// monotonicity monitor
	stop := make(chan struct{})
	var mwg sync.WaitGroup
	mwg.Add(1)
	go func() {
		defer mwg.Done()
		var last uint64
		for {
			select {
			case <-stop:
				return
			default:
			}
			d := w.DoneUntil()
			if d < last {
				setFail(fmt.Sprintf("DoneUntil decreased from %d to %d", last, d))
				return
			}
			last = d
			runtime.Gosched()
		}
	}()
	for g := 0; g < c.Goroutines; g++ {
		wg.Add(1)
		go func(g int) {
			defer wg.Done()
			rng := rand.New(rand.NewSource(c.Seed + int64(g)*7919))
			for k := 0; k < c.Iters; k++ {
				mu.Lock()
				i := next
				unique := takers[i] == 0
				takers[i]++
				if rng.Intn(100) < c.IncPct {
					next++
				} else {
					unique = false
				}
				if i > maxIdx {
					maxIdx = i
				}
				w.Begin(i) // under the lock, like oracle.readTs / newCommitTs
				mu.Unlock()
				if !unique {
					smu.Lock()
					sharedIdx++
					smu.Unlock()
				}
				for r := rng.Intn(4); r >= 0; r-- {
					d := w.DoneUntil()
					if d > i || (unique && d == i) {
						setFail(fmt.Sprintf("DoneUntil=%d while index %d (unique=%v) is begun and unfinished", d, i, unique))
					}
					if unique {
						smu.Lock()
						strictChecks++
						smu.Unlock()
					}
					runtime.Gosched()
				}
				if rng.Intn(100) < c.WaitPct && i > 3 {
					t := i - 1 - uint64(rng.Intn(3))
					// one waiter, or now and then a crowd on the same index (all released by one
					// pass of the consumer; each looks at DoneUntil the moment it is released)
					n := 1
					if c.Crowd > 0 && rng.Intn(3) == 0 {
						n = c.Crowd
					}
					for q := 0; q < n; q++ {
						wt := &wmWaiter{t: t, done: make(chan struct{})}
						wmu.Lock()
						waiters = append(waiters, wt)
						wmu.Unlock()
						go func() {
							wt.err = w.WaitForMark(context.Background(), wt.t)
							wt.dAtRet = w.DoneUntil()
							close(wt.done)
						}()
					}
				}
				if rng.Intn(100) < c.HoldPct {
					handoff <- i
					smu.Lock()
					handed++
					smu.Unlock()
				} else {
					w.Done(i)
				}
				// finish somebody else's index now and then
				select {
				case j := <-handoff:
					w.Done(j)
				default:
				}
			}
		}(g)
	}
	wg.Wait()
	close(handoff)
	for j := range handoff {
		w.Done(j)
	}
	close(stop)
	mwg.Wait()
	fail.Lock()
	fm := fail.msg
	fail.Unlock()
	if fm != "" {
		return fm, false, nil
	}
	if m := syncWM(w); m != "" {
		return m, false, nil
	}
	if d := w.DoneUntil(); d < maxIdx {
		return fmt.Sprintf("all %d indices finished but DoneUntil=%d", maxIdx, d), false, nil
	}
	for _, wt := range waiters {
		if m := awaitWaiter(wt, fmt.Sprintf("all indices up to %d are finished", maxIdx)); m != "" {
			return m, false, nil
		}
		if wt.err != nil {
			return fmt.Sprintf("WaitForMark(%d) with a live context returned %v", wt.t, wt.err), false, nil
		}
		if wt.dAtRet < wt.t {
			return fmt.Sprintf("WaitForMark(%d) returned nil while DoneUntil=%d", wt.t, wt.dAtRet), false, nil
		}
	}
	if len(waiters) > 0 {
		classes = append(classes, "with_waiters")
	}
	if handed > 0 {
		classes = append(classes, "done_from_other_goroutine")
	}
	if c.Crowd > 0 && len(waiters) >= c.Crowd {
		classes = append(classes, "crowd_of_waiters_on_one_index")
	}
	if c.Goroutines*c.Iters > 100 {
		classes = append(classes, "more_marks_than_buffer")
	}
	return "", strictChecks > 0 && sharedIdx > 0 && len(waiters) > 0, classes
}

func TestC13Conc(t *testing.T) {
	rec := vlib.For("C13", "TestC13Conc")
	if rc := vlib.ReplayCase(); rc != nil {
		var c wmConcCase
		if err := json.Unmarshal(rc, &c); err != nil {
			t.Fatalf("bad replay case: %v", err)
		}
		for i := 0; i < 50; i++ {
			if msg, _, _ := runWMConc(c); msg != "" {
				wmReport(rec, msg, rc, t.Fatalf)
			}
		}
		return
	}
	rapid.Check(t, func(rt *rapid.T) {
		c := wmConcCase{
			Goroutines: rapid.IntRange(2, 8).Draw(rt, "goroutines"),
			Iters:      rapid.IntRange(5, 80).Draw(rt, "iters"),
			Seed:       rapid.Int64().Draw(rt, "seed"),
			IncPct:     rapid.SampledFrom([]int{30, 60, 90, 100}).Draw(rt, "inc"),
			WaitPct:    rapid.SampledFrom([]int{0, 10, 40}).Draw(rt, "wait"),
			HoldPct:    rapid.SampledFrom([]int{0, 20, 60}).Draw(rt, "hold"),
			Crowd:      rapid.SampledFrom([]int{0, 0, 16, 64, 200}).Draw(rt, "crowd"),
		}
		cj := vlib.JSON(c)
		rec.Begin(cj)
		msg, nt, classes := runWMConc(c)
		rec.End(cj, nt, classes...)
		if msg != "" {
			wmReport(rec, msg, cj, rt.Fatalf)
		}
	})
}
