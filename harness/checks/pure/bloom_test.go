//go:build verif

package pure

import (
	"crypto/sha256"
	"encoding/binary"
	"encoding/json"
	"fmt"
	"os"
	"strings"
	"testing"
	"unicode/utf8"

	"github.com/B1NARY-GR0UP/originium/pkg/filter"
	"github.com/B1NARY-GR0UP/originium/types"
	"pgregory.net/rapid"

	"verif/harness/vlib"
)

// ---- C16: the bloom filter never denies a key it was built from -----------

type bloomCase struct {
	Mode     string     `json:"mode"` // "build" (filter.Build over entries) or "new" (filter.New(n,p) + Add)
	Explicit []vlib.Str `json:"explicit"`
	// procedurally expanded members: key i = first KeyLen bytes of sha256(seed,i) (binary, mostly non-UTF-8)
	GenSeed  uint64  `json:"gen_seed"`
	GenCount int     `json:"gen_count"`
	KeyLen   int     `json:"gen_keylen"`
	Versions int     `json:"versions_per_key"` // build mode: each user key appears with versions 1..Versions
	N        int     `json:"n,omitempty"`      // new mode
	P        float64 `json:"p,omitempty"`
}

func (c bloomCase) members() []string {
	out := make([]string, 0, len(c.Explicit)+c.GenCount)
	for _, k := range c.Explicit {
		out = append(out, string(k))
	}
	var buf [16]byte
	binary.LittleEndian.PutUint64(buf[:8], c.GenSeed)
	for i := 0; i < c.GenCount; i++ {
		binary.LittleEndian.PutUint64(buf[8:], uint64(i))
		h := sha256.Sum256(buf[:])
		out = append(out, string(h[:c.KeyLen]))
	}
	return out
}

func genBloomCase(t *rapid.T) bloomCase {
	c := bloomCase{Mode: rapid.SampledFrom([]string{"build", "build", "new"}).Draw(t, "mode")}
	anyKey := rapid.OneOf(
		rapid.SampledFrom(vlib.Pool),
		rapid.Map(rapid.SliceOfN(rapid.Byte(), 1, 24), func(b []byte) string { return string(b) }),
		rapid.StringN(1, 8, 24),
		rapid.Map(rapid.SampledFrom([]int{63, 64, 65, 255, 256, 1000, 4096, 70000}), func(n int) string { return strings.Repeat("K", n) }),
		rapid.Map(rapid.SampledFrom([]int{64, 100, 300}), func(n int) string { return strings.Repeat("p", n) + "-tail" }),
	)
	nexp := rapid.IntRange(0, 12).Draw(t, "nexplicit")
	for i := 0; i < nexp; i++ {
		c.Explicit = append(c.Explicit, vlib.Str(anyKey.Draw(t, "key")))
	}
	class := rapid.IntRange(0, 99).Draw(t, "sizeclass")
	switch {
	case class < 45:
		c.GenCount = rapid.IntRange(0, 10).Draw(t, "gencount")
	case class < 85:
		c.GenCount = rapid.IntRange(10, 1000).Draw(t, "gencount")
	case class < 96:
		c.GenCount = rapid.IntRange(1000, 6000).Draw(t, "gencount")
	case class < 99:
		c.GenCount = rapid.IntRange(6000, 20000).Draw(t, "gencount")
	default:
		// a table flushed from a default-size (4 MiB) memtable holds on the order of 10^5 keys
		c.GenCount = rapid.IntRange(60000, 160000).Draw(t, "gencount")
	}
	if os.Getenv("VERIF_FUZZ") != "" && c.GenCount > 6000 {
		// Go's native fuzzer kills a worker whose single input runs longer than 10 s
		c.GenCount = 6000
	}
	if len(c.Explicit)+c.GenCount == 0 {
		c.Explicit = append(c.Explicit, vlib.Str(anyKey.Draw(t, "key")))
	}
	c.GenSeed = rapid.Uint64().Draw(t, "genseed")
	c.KeyLen = rapid.IntRange(1, 20).Draw(t, "keylen")
	c.Versions = rapid.SampledFrom([]int{1, 1, 1, 2, 3, 7}).Draw(t, "versions")
	if c.Mode == "new" {
		total := len(c.Explicit) + c.GenCount
		c.N = rapid.OneOf(rapid.Just(total), rapid.IntRange(1, 100000), rapid.IntRange(1, 10)).Draw(t, "n")
		c.P = rapid.OneOf(
			rapid.SampledFrom([]float64{1e-9, 1e-6, 0.001, 0.01, 0.1, 0.5, 0.9, 0.999, 0.999999}),
			rapid.Float64Range(1e-9, 0.999999),
		).Draw(t, "p")
	}
	return c
}

func runBloom(c bloomCase) (msg string, nontrivial bool, classes []string) {
	defer func() {
		if r := recover(); r != nil {
			msg = fmt.Sprintf("panic: %v", r)
		}
	}()
	mem := c.members()
	var f *filter.Filter
	if c.Mode == "new" {
		f = filter.New(c.N, c.P)
		for _, k := range mem {
			f.Add(k)
		}
	} else {
		var es []types.Entry
		for _, k := range mem {
			for v := 1; v <= c.Versions; v++ {
				es = append(es, types.Entry{Key: vlib.VKey(k, uint64(v)), Version: int64(v)})
			}
		}
		f = filter.Build(es)
	}
	distinct := map[string]struct{}{}
	special := false
	for i, k := range mem {
		// queried the way the engine queries: through ParseKey of a versioned probe
		probe := k
		if c.Mode == "build" {
			probe = types.ParseKey(vlib.VKey(k, 1<<40))
		}
		if !f.Contains(probe) {
			return fmt.Sprintf("member %d %q of %d denied (mode %s, n=%d p=%g versions=%d)", i, k, len(mem), c.Mode, c.N, c.P, c.Versions), false, nil
		}
		distinct[k] = struct{}{}
		if !utf8.ValidString(k) || containsAt(k) {
			special = true
		}
	}
	switch n := len(mem); {
	case n == 1:
		classes = append(classes, "size_1")
	case n <= 10:
		classes = append(classes, "size_2_10")
	case n <= 1000:
		classes = append(classes, "size_11_1000")
	case n <= 50000:
		classes = append(classes, "size_gt_1000")
	default:
		classes = append(classes, "size_gt_50000")
	}
	classes = append(classes, "mode_"+c.Mode)
	if c.Versions > 1 && c.Mode == "build" {
		classes = append(classes, "many_versions")
	}
	return "", len(distinct) >= 2 && special, classes
}

func containsAt(s string) bool {
	for i := 0; i < len(s); i++ {
		if s[i] == '@' {
			return true
		}
	}
	return false
}

func TestC16(t *testing.T) {
	rec := vlib.For("C16", "TestC16")
	if rc := vlib.ReplayCase(); rc != nil {
		var c bloomCase
		if err := json.Unmarshal(rc, &c); err != nil {
			t.Fatalf("bad replay case: %v", err)
		}
		if msg, _, _ := runBloom(c); msg != "" {
			rec.Violation("bloom_false_negative", msg, rc, nil)
			t.Fatalf("%s", msg)
		}
		return
	}
	rapid.Check(t, propC16)
}

func propC16(rt *rapid.T) {
	rec := vlib.For("C16", "TestC16")
	c := rapid.Custom(genBloomCase).Draw(rt, "case")
	cj := vlib.JSON(c)
	rec.Begin(cj)
	msg, nt, classes := runBloom(c)
	rec.End(cj, nt, classes...)
	if msg != "" {
		rec.Violation("bloom_false_negative", msg, cj, nil)
		rt.Fatalf("%s", msg)
	}
}

// FuzzC16 hands the same property to Go's coverage-guided fuzzer (thorough tier only).
func FuzzC16(f *testing.F) { f.Fuzz(rapid.MakeFuzz(propC16)) }
