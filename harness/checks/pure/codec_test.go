//go:build verif

package pure

import (
	"bytes"
	"encoding/json"
	"fmt"
	"math"
	"os"
	"path/filepath"
	"sync"
	"testing"
	"unicode/utf8"

	"github.com/B1NARY-GR0UP/originium/table"
	"github.com/B1NARY-GR0UP/originium/types"
	"github.com/B1NARY-GR0UP/originium/wal"
	"pgregory.net/rapid"

	"verif/harness/vlib"
)

// ---- C11: encodings round-trip exactly and stay intact --------------------

// blob is a byte string written compactly: Pat repeated and cut to N bytes.
type blob struct {
	Pat vlib.Str `json:"pat"`
	N   int      `json:"n"`
}

func (b blob) bytes() []byte {
	if b.N == 0 || len(b.Pat) == 0 {
		return []byte{}
	}
	out := make([]byte, 0, b.N)
	for len(out) < b.N {
		out = append(out, b.Pat...)
	}
	return out[:b.N]
}

type cEntry struct {
	Prefix blob     `json:"prefix"` // long shared prefixes exercise the prefix compression
	Suffix vlib.Str `json:"suffix"`
	Val    blob     `json:"val"`
	NilVal bool     `json:"nil_val,omitempty"`
	Tomb   bool     `json:"tomb,omitempty"`
	Ver    int64    `json:"ver"`
}

func (e cEntry) entry() types.Entry {
	en := types.Entry{Key: string(e.Prefix.bytes()) + string(e.Suffix), Tombstone: e.Tomb, Version: e.Ver}
	if !e.NilVal {
		en.Value = e.Val.bytes()
	}
	return en
}

type cIndexEntry struct {
	Start, End cEntry
	Off, Len   uint64
}

type codecCase struct {
	Kind      string        `json:"kind"` // data index footer meta table wal alias
	Entries   []cEntry      `json:"entries,omitempty"`
	Entries2  []cEntry      `json:"entries2,omitempty"` // alias: the "something else" encoded afterwards
	BlockSize int           `json:"block_size,omitempty"`
	Level     int           `json:"level,omitempty"`
	Words     []uint64      `json:"words,omitempty"`
	Index     []cIndexEntry `json:"index,omitempty"`
	WalSplit  []int         `json:"wal_split,omitempty"`  // entries per Write call
	WalReopen []bool        `json:"wal_reopen,omitempty"` // Close+Open after that Write
	Which     string        `json:"which,omitempty"`      // alias: encoder under test
}

var lenClasses = []int{0, 0, 1, 1, 2, 3, 7, 16, 100, 255, 256, 257, 1000, 4096, 65535, 65536, 65537, 70000}

func genBlob(t *rapid.T, label string, max int) blob {
	n := rapid.SampledFrom(lenClasses).Draw(t, label+"len")
	if n > max {
		n = max
	}
	if rapid.IntRange(0, 3).Draw(t, label+"exact") == 0 {
		n = rapid.IntRange(0, min(max, 40)).Draw(t, label+"len2")
	}
	pat := rapid.OneOf(
		rapid.Map(rapid.SliceOfN(rapid.Byte(), 1, 16), func(b []byte) string { return string(b) }),
		rapid.SampledFrom([]string{"a", "ab", "\x00", "\xff", "@", "prefix-", "\xff\xfe\x00"}),
	).Draw(t, label+"pat")
	return blob{Pat: vlib.Str(pat), N: n}
}

func genCEntry(t *rapid.T, shared []blob, maxVal int) cEntry {
	e := cEntry{}
	if len(shared) > 0 && rapid.IntRange(0, 3).Draw(t, "useShared") != 0 {
		e.Prefix = rapid.SampledFrom(shared).Draw(t, "prefix")
	} else {
		e.Prefix = genBlob(t, "prefix", 70000)
	}
	e.Suffix = vlib.Str(rapid.OneOf(
		rapid.SampledFrom([]string{"", "a", "b", "@1", "@18446744073709551615", "\x00", "\xff"}),
		// multi-byte UTF-8 neighbours (same lead byte, other continuation byte; code point == a byte value)
		rapid.SampledFrom([]string{"ключ-а", "ключ-д", "PÁO", "PÃO", "é", "è", "\u00c3", "\u00c2", "\xc3", "\xc3\x81", "\xc3\x83", "\xc2\x82", "日本", "日曜"}),
		rapid.Map(rapid.SliceOfN(rapid.Byte(), 0, 8), func(b []byte) string { return string(b) }),
	).Draw(t, "suffix"))
	e.Val = genBlob(t, "val", maxVal)
	e.NilVal = rapid.IntRange(0, 7).Draw(t, "nilval") == 0
	e.Tomb = rapid.Bool().Draw(t, "tomb")
	e.Ver = rapid.OneOf(rapid.Int64Range(0, 20), rapid.SampledFrom([]int64{math.MinInt64, -1, 0, 1, math.MaxInt64, 1 << 32}), rapid.Int64()).Draw(t, "ver")
	return e
}

func genEntries(t *rapid.T, label string, maxN int) []cEntry {
	nshared := rapid.IntRange(0, 3).Draw(t, label+"nshared")
	var shared []blob
	for i := 0; i < nshared; i++ {
		shared = append(shared, genBlob(t, "shared", 70000))
	}
	class := rapid.IntRange(0, 99).Draw(t, label+"nclass")
	var n int
	switch {
	case class < 5:
		n = 0
	case class < 70:
		n = rapid.IntRange(1, 8).Draw(t, label+"n")
	case class < 95:
		n = rapid.IntRange(8, 60).Draw(t, label+"n")
	default:
		n = rapid.IntRange(60, 400).Draw(t, label+"n")
	}
	if n > maxN {
		n = maxN
	}
	maxVal := 70000
	if n > 60 {
		maxVal = 300
	}
	es := make([]cEntry, n)
	for i := range es {
		es[i] = genCEntry(t, shared, maxVal)
	}
	return es
}

func genCodecCase(t *rapid.T) codecCase {
	c := codecCase{Kind: rapid.SampledFrom([]string{"data", "data", "index", "footer", "meta", "table", "table", "wal", "alias", "alias"}).Draw(t, "kind")}
	switch c.Kind {
	case "data":
		c.Entries = genEntries(t, "e", 400)
	case "index":
		n := rapid.IntRange(0, 12).Draw(t, "nidx")
		c.Words = []uint64{rapid.Uint64().Draw(t, "dboff"), rapid.Uint64().Draw(t, "dblen")}
		for i := 0; i < n; i++ {
			c.Index = append(c.Index, cIndexEntry{Start: genCEntry(t, nil, 0), End: genCEntry(t, nil, 0),
				Off: rapid.Uint64().Draw(t, "off"), Len: rapid.Uint64().Draw(t, "len")})
		}
	case "footer":
		for i := 0; i < 4; i++ {
			c.Words = append(c.Words, rapid.Uint64().Draw(t, "w"))
		}
	case "meta":
		c.Words = []uint64{rapid.Uint64().Draw(t, "created"), rapid.Uint64().Draw(t, "level")}
	case "table":
		c.Entries = genEntries(t, "e", 200)
		if len(c.Entries) == 0 {
			c.Entries = []cEntry{genCEntry(t, nil, 300)}
		}
		c.BlockSize = rapid.SampledFrom([]int{1, 1, 2, 10, 50, 200, 4096, 1 << 20}).Draw(t, "block")
		c.Level = rapid.IntRange(0, 6).Draw(t, "level")
	case "wal":
		c.Entries = genEntries(t, "e", 60)
		left := len(c.Entries)
		for left > 0 {
			k := rapid.IntRange(1, 5).Draw(t, "perwrite")
			if k > left {
				k = left
			}
			c.WalSplit = append(c.WalSplit, k)
			c.WalReopen = append(c.WalReopen, rapid.IntRange(0, 3).Draw(t, "reopen") == 0)
			left -= k
		}
	case "alias":
		c.Which = rapid.SampledFrom([]string{"data", "data", "index", "footer", "meta", "table"}).Draw(t, "which")
		c.Entries = genEntries(t, "e", 40)
		if len(c.Entries) == 0 {
			c.Entries = []cEntry{genCEntry(t, nil, 300)}
		}
		c.Entries2 = genEntries(t, "f", 40)
		if len(c.Entries2) == 0 {
			c.Entries2 = []cEntry{genCEntry(t, nil, 300)}
		}
		c.BlockSize = rapid.SampledFrom([]int{1, 10, 200, 4096}).Draw(t, "block")
		for i := 0; i < 8; i++ {
			c.Words = append(c.Words, rapid.Uint64().Draw(t, "w"))
		}
	}
	return c
}

func entriesOf(cs []cEntry) []types.Entry {
	out := make([]types.Entry, len(cs))
	for i, c := range cs {
		out[i] = c.entry()
	}
	return out
}

func cmpEntries(got, want []types.Entry) string {
	if len(got) != len(want) {
		return fmt.Sprintf("decoded %d entries, encoded %d", len(got), len(want))
	}
	for i := range want {
		g, w := got[i], want[i]
		if g.Key != w.Key {
			return fmt.Sprintf("entry %d: key differs (len %d vs %d): got %.40q want %.40q", i, len(g.Key), len(w.Key), g.Key, w.Key)
		}
		if !bytes.Equal(g.Value, w.Value) {
			return fmt.Sprintf("entry %d (key %.30q): value differs (len %d vs %d)", i, w.Key, len(g.Value), len(w.Value))
		}
		if g.Tombstone != w.Tombstone || g.Version != w.Version {
			return fmt.Sprintf("entry %d (key %.30q): tombstone/version got %v/%d want %v/%d", i, w.Key, g.Tombstone, g.Version, w.Tombstone, w.Version)
		}
	}
	return ""
}

var (
	magicOnce sync.Once
	magicWord uint64
)

// tableMagic reads the footer magic from a real table, so that the check does
// not hard-code the constant.
func tableMagic() uint64 {
	magicOnce.Do(func() {
		_, tb := table.Build([]types.Entry{{Key: "k@1", Version: 1}}, 4096, 0)
		var f table.Footer
		if err := f.Decode(tb[len(tb)-40:]); err != nil {
			panic("cannot decode the footer of a freshly built table: " + err.Error())
		}
		magicWord = f.Magic
	})
	return magicWord
}

// decodeTable reads table bytes the way levelManager.recover and the lookups do.
func decodeTable(tb []byte) (whole []types.Entry, perBlock []types.Entry, idx table.Index, err error) {
	if len(tb) < 40 {
		return nil, nil, idx, fmt.Errorf("table of %d bytes has no footer", len(tb))
	}
	var f table.Footer
	if err = f.Decode(tb[len(tb)-40:]); err != nil {
		return nil, nil, idx, fmt.Errorf("footer: %w", err)
	}
	sl := func(off, ln uint64) ([]byte, error) {
		if off+ln > uint64(len(tb)) || off+ln < off {
			return nil, fmt.Errorf("handle [%d,+%d) outside table of %d bytes", off, ln, len(tb))
		}
		return tb[off : off+ln], nil
	}
	ib, err := sl(f.IndexBlock.Offset, f.IndexBlock.Length)
	if err != nil {
		return nil, nil, idx, err
	}
	if err = idx.Decode(ib); err != nil {
		return nil, nil, idx, fmt.Errorf("index: %w", err)
	}
	db, err := sl(idx.DataBlock.Offset, idx.DataBlock.Length)
	if err != nil {
		return nil, nil, idx, err
	}
	var d table.Data
	if err = d.Decode(db); err != nil {
		return nil, nil, idx, fmt.Errorf("data region: %w", err)
	}
	whole = d.Entries
	for i, ie := range idx.Entries {
		bb, err := sl(ie.DataHandle.Offset, ie.DataHandle.Length)
		if err != nil {
			return nil, nil, idx, err
		}
		var blk table.Data
		if err = blk.Decode(bb); err != nil {
			return nil, nil, idx, fmt.Errorf("block %d: %w", i, err)
		}
		if len(blk.Entries) == 0 || blk.Entries[0].Key != ie.StartKey || blk.Entries[len(blk.Entries)-1].Key != ie.EndKey {
			return nil, nil, idx, fmt.Errorf("block %d: index StartKey/EndKey do not match the block's first/last entry", i)
		}
		perBlock = append(perBlock, blk.Entries...)
	}
	var m table.Meta
	mb, err := sl(f.MetaBlock.Offset, f.MetaBlock.Length)
	if err != nil {
		return nil, nil, idx, err
	}
	if err = m.Decode(mb); err != nil {
		return nil, nil, idx, fmt.Errorf("meta: %w", err)
	}
	return whole, perBlock, idx, nil
}

func indexOf(c codecCase) table.Index {
	ix := table.Index{DataBlock: table.BlockHandle{Offset: c.Words[0], Length: c.Words[1]}}
	for _, ie := range c.Index {
		ix.Entries = append(ix.Entries, table.IndexEntry{StartKey: ie.Start.entry().Key, EndKey: ie.End.entry().Key,
			DataHandle: table.BlockHandle{Offset: ie.Off, Length: ie.Len}})
	}
	return ix
}

func runCodec(c codecCase, scratch string) (msg string, nontrivial bool, classes []string) {
	defer func() {
		if r := recover(); r != nil {
			msg = fmt.Sprintf("panic in %s codec: %v", c.Kind, r)
		}
	}()
	es := entriesOf(c.Entries)
	classes = append(classes, "kind_"+c.Kind)
	switch c.Kind {
	case "data":
		d := table.Data{Entries: es}
		b, err := d.Encode()
		if err != nil {
			return "Data.Encode: " + err.Error(), false, nil
		}
		var out table.Data
		if err := out.Decode(b); err != nil {
			return "Data.Decode of own encoding: " + err.Error(), false, nil
		}
		if m := cmpEntries(out.Entries, es); m != "" {
			return "data block round trip: " + m, false, nil
		}
	case "index":
		ix := indexOf(c)
		b, err := ix.Encode()
		if err != nil {
			return "Index.Encode: " + err.Error(), false, nil
		}
		var out table.Index
		if err := out.Decode(b); err != nil {
			return "Index.Decode of own encoding: " + err.Error(), false, nil
		}
		if out.DataBlock != ix.DataBlock || len(out.Entries) != len(ix.Entries) {
			return fmt.Sprintf("index round trip: handle %v vs %v, %d vs %d entries", out.DataBlock, ix.DataBlock, len(out.Entries), len(ix.Entries)), false, nil
		}
		for i := range ix.Entries {
			if out.Entries[i] != ix.Entries[i] {
				return fmt.Sprintf("index round trip: entry %d differs", i), false, nil
			}
		}
	case "footer":
		f := table.Footer{MetaBlock: table.BlockHandle{Offset: c.Words[0], Length: c.Words[1]},
			IndexBlock: table.BlockHandle{Offset: c.Words[2], Length: c.Words[3]}, Magic: tableMagic()}
		b, err := f.Encode()
		if err != nil {
			return "Footer.Encode: " + err.Error(), false, nil
		}
		var out table.Footer
		if err := out.Decode(b); err != nil {
			return "Footer.Decode of own encoding: " + err.Error(), false, nil
		}
		if out != f {
			return fmt.Sprintf("footer round trip: %+v vs %+v", out, f), false, nil
		}
	case "meta":
		m := table.Meta{CreatedUnix: int64(c.Words[0]), Level: c.Words[1]}
		b, err := m.Encode()
		if err != nil {
			return "Meta.Encode: " + err.Error(), false, nil
		}
		var out table.Meta
		if err := out.Decode(b); err != nil {
			return "Meta.Decode of own encoding: " + err.Error(), false, nil
		}
		if out != m {
			return fmt.Sprintf("meta round trip: %+v vs %+v", out, m), false, nil
		}
	case "table":
		ix, tb := table.Build(es, c.BlockSize, c.Level)
		tb = bytes.Clone(tb) // take the result at once, as flushToL0 would write it at once
		whole, per, dix, err := decodeTable(tb)
		if err != nil {
			return "table decode: " + err.Error(), false, nil
		}
		if m := cmpEntries(whole, es); m != "" {
			return "table round trip (whole data region, as recovery/compaction read it): " + m, false, nil
		}
		if m := cmpEntries(per, es); m != "" {
			return "table round trip (block by block, as lookups read it): " + m, false, nil
		}
		if len(dix.Entries) != len(ix.Entries) || dix.DataBlock != ix.DataBlock {
			return "table: decoded index differs from the index Build returned", false, nil
		}
		for i := range ix.Entries {
			if ix.Entries[i] != dix.Entries[i] {
				return fmt.Sprintf("table: decoded index entry %d differs from the one Build returned", i), false, nil
			}
		}
		if len(ix.Entries) > 1 {
			classes = append(classes, "multi_block")
		}
	case "wal":
		dir := filepath.Join(scratch, "wal")
		_ = os.RemoveAll(dir)
		if err := os.MkdirAll(dir, 0o755); err != nil {
			return "", false, nil
		}
		defer os.RemoveAll(dir)
		w, err := wal.Create(dir)
		if err != nil {
			return "wal.Create: " + err.Error(), false, nil
		}
		pos := 0
		var path string
		for i, k := range c.WalSplit {
			if err := w.Write(es[pos : pos+k]...); err != nil {
				return fmt.Sprintf("WAL.Write call %d: %v", i, err), false, nil
			}
			pos += k
			if c.WalReopen[i] {
				if err := w.Close(); err != nil {
					return "WAL.Close: " + err.Error(), false, nil
				}
				names, _ := filepath.Glob(filepath.Join(dir, "*.log"))
				if len(names) != 1 {
					return fmt.Sprintf("expected one wal file, found %d", len(names)), false, nil
				}
				path = names[0]
				if w, err = wal.Open(path); err != nil {
					return "wal.Open: " + err.Error(), false, nil
				}
				classes = appendOnce(classes, "wal_reopened")
			}
		}
		got, err := w.Read()
		if err != nil {
			return "WAL.Read: " + err.Error(), false, nil
		}
		if m := cmpEntries(got, es); m != "" {
			return "wal round trip: " + m, false, nil
		}
		_ = w.Delete()
	case "alias":
		// metamorphic: encode X, keep the bytes, encode/decode something else in the
		// SAME goroutine, the kept bytes must be unchanged.
		es2 := entriesOf(c.Entries2)
		var first []byte
		var err error
		switch c.Which {
		case "data":
			d := table.Data{Entries: es}
			first, err = d.Encode()
		case "index":
			ix := table.Index{DataBlock: table.BlockHandle{Offset: c.Words[0], Length: c.Words[1]}}
			for i, e := range es {
				ix.Entries = append(ix.Entries, table.IndexEntry{StartKey: e.Key, EndKey: e.Key + "z", DataHandle: table.BlockHandle{Offset: uint64(i), Length: c.Words[2]}})
			}
			first, err = ix.Encode()
		case "footer":
			f := table.Footer{MetaBlock: table.BlockHandle{Offset: c.Words[0], Length: c.Words[1]}, IndexBlock: table.BlockHandle{Offset: c.Words[2], Length: c.Words[3]}, Magic: tableMagic()}
			first, err = f.Encode()
		case "meta":
			m := table.Meta{CreatedUnix: int64(c.Words[0]), Level: c.Words[1]}
			first, err = m.Encode()
		case "table":
			_, first = table.Build(es, c.BlockSize, 0)
		}
		if err != nil {
			return "first encode: " + err.Error(), false, nil
		}
		snap := bytes.Clone(first)
		// something else
		d2 := table.Data{Entries: es2}
		b2, err := d2.Encode()
		if err != nil {
			return "second encode: " + err.Error(), false, nil
		}
		snap2 := bytes.Clone(b2)
		f2 := table.Footer{MetaBlock: table.BlockHandle{Offset: c.Words[4], Length: c.Words[5]}, IndexBlock: table.BlockHandle{Offset: c.Words[6], Length: c.Words[7]}, Magic: tableMagic()}
		if _, err := f2.Encode(); err != nil {
			return "third encode: " + err.Error(), false, nil
		}
		m2 := table.Meta{CreatedUnix: int64(c.Words[5]), Level: c.Words[6]}
		_, _ = m2.Encode()
		_, _ = table.Build(es2, c.BlockSize, 1)
		var dd table.Data
		_ = dd.Decode(snap2)
		if !bytes.Equal(first, snap) {
			return fmt.Sprintf("bytes returned by the %s encoder (%d bytes) changed after later encoder calls in the same goroutine", c.Which, len(snap)), false, nil
		}
		if !bytes.Equal(b2, snap2) {
			return fmt.Sprintf("bytes returned by Data.Encode (%d bytes) changed after later encoder calls in the same goroutine", len(snap2)), false, nil
		}
		classes = append(classes, "alias_"+c.Which)
		return "", len(snap2) >= len(snap), classes
	}
	// non-trivial: >= 2 entries sharing a prefix >= 1 byte and >= 1 empty or binary key/value
	shared, special := false, false
	for i := range es {
		if i > 0 && len(es[i].Key) > 0 && len(es[i-1].Key) > 0 && es[i].Key[0] == es[i-1].Key[0] {
			shared = true
		}
		if len(es[i].Value) == 0 || !utf8.ValidString(es[i].Key) || !utf8.Valid(es[i].Value) || bytes.IndexByte(es[i].Value, 0) >= 0 {
			special = true
		}
		if len(es[i].Key) >= 65000 || len(es[i].Value) >= 65000 {
			classes = appendOnce(classes, "len_near_64k")
		}
	}
	switch c.Kind {
	case "index":
		return "", len(c.Index) >= 2, classes
	case "footer", "meta":
		return "", true, classes
	}
	return "", shared && special, classes
}

func TestC11(t *testing.T) {
	rec := vlib.For("C11", "TestC11")
	scratch := os.Getenv("VERIF_SCRATCH")
	if scratch == "" {
		scratch = t.TempDir()
	}
	if rc := vlib.ReplayCase(); rc != nil {
		var c codecCase
		if err := json.Unmarshal(rc, &c); err != nil {
			t.Fatalf("bad replay case: %v", err)
		}
		if msg, _, _ := runCodec(c, scratch); msg != "" {
			rec.Violation(codecKind(c, msg), msg, rc, nil)
			t.Fatalf("%s", msg)
		}
		return
	}
	rapid.Check(t, propC11(scratch))
}

func propC11(scratch string) func(*rapid.T) {
	return func(rt *rapid.T) {
		rec := vlib.For("C11", "TestC11")
		c := rapid.Custom(genCodecCase).Draw(rt, "case")
		cj := vlib.JSON(c)
		rec.Begin(cj)
		msg, nt, classes := runCodec(c, scratch)
		rec.End(cj, nt, classes...)
		if msg != "" {
			rec.Violation(codecKind(c, msg), msg, cj, nil)
			rt.Fatalf("%s", msg)
		}
	}
}

// FuzzC11 hands the same property to Go's coverage-guided fuzzer (thorough tier only).
func FuzzC11(f *testing.F) {
	scratch := filepath.Join(os.Getenv("VERIF_SCRATCH"), fmt.Sprintf("fz%d", os.Getpid()))
	_ = os.MkdirAll(scratch, 0o755)
	f.Fuzz(rapid.MakeFuzz(propC11(scratch)))
}

func codecKind(c codecCase, msg string) string {
	if c.Kind == "alias" {
		return "encoder_result_mutated"
	}
	return "codec_round_trip_" + c.Kind
}

// ---- size classes at and above 64 KiB (kept apart from the main search so that a
// size limit, if it were only recorded, would be excluded from it by construction) ----

type sizeCase struct {
	Kind    string   `json:"kind"` // data table wal index
	Entries []cEntry `json:"entries"`
	Block   int      `json:"block_size"`
	HugeMiB int      `json:"huge_mib,omitempty"` // the big value is this many MiB, and small round trips follow in the same goroutine
}

var bigLens = []int{65536, 65537, 70000, 131072, 200000}

func genSizeCase(t *rapid.T) sizeCase {
	c := sizeCase{Kind: rapid.SampledFrom([]string{"data", "table", "wal", "index"}).Draw(t, "kind"),
		Block: rapid.SampledFrom([]int{1, 4096, 100000, 1 << 20}).Draw(t, "block")}
	n := rapid.IntRange(1, 5).Draw(t, "n")
	bigAt := rapid.IntRange(0, n-1).Draw(t, "bigAt")
	for i := 0; i < n; i++ {
		e := genCEntry(t, nil, 300)
		if e.Prefix.N > 300 {
			e.Prefix.N = 300
		}
		if i == bigAt {
			which := rapid.SampledFrom([]string{"value", "value", "key", "both"}).Draw(t, "which")
			if which != "key" || c.Kind == "index" {
				e.Val.N = rapid.SampledFrom(bigLens).Draw(t, "biglen")
				e.NilVal = false
			}
			if which != "value" || c.Kind == "index" {
				e.Prefix.N = rapid.SampledFrom(bigLens).Draw(t, "bigklen")
			}
			if len(e.Prefix.Pat) == 0 {
				e.Prefix.Pat = "k"
			}
			if len(e.Val.Pat) == 0 {
				e.Val.Pat = "v"
			}
		}
		if i == bigAt && c.Kind != "index" && rapid.IntRange(0, 11).Draw(t, "huge") == 0 {
			// size class: one value of many MiB (what a default-size memtable, table or wal holds),
			// followed by ordinary small round trips on whatever the codecs kept from it
			c.HugeMiB = rapid.SampledFrom([]int{5, 20, 40}).Draw(t, "hugeMiB")
			e.Val.N = c.HugeMiB << 20
			e.NilVal = false
			if len(e.Val.Pat) == 0 {
				e.Val.Pat = "v"
			}
			if e.Prefix.N > 300 {
				e.Prefix.N = 300
			}
		}
		c.Entries = append(c.Entries, e)
		if i == bigAt && rapid.Bool().Draw(t, "sharedBigPrefix") {
			// a neighbour that shares the whole long prefix (prefix compression across >= 64 KiB)
			n := e
			n.Suffix = vlib.Str(string(e.Suffix) + "~next")
			n.Val = blob{Pat: "w", N: 3}
			c.Entries = append(c.Entries, n)
		}
	}
	return c
}

// runSize: the round trip of the case itself and, for the many-MiB class, small round trips of
// every codec afterwards in the same goroutine (three times: the buffer pool is per P).
func runSize(c sizeCase, scratch string) (msg string) {
	if msg = runSizeMain(c, scratch); msg != "" || c.HugeMiB == 0 {
		return msg
	}
	small := sizeCase{Block: 4096, Entries: []cEntry{
		{Prefix: blob{Pat: "k", N: 3}, Suffix: "a@5", Ver: 5, Val: blob{Pat: "v", N: 10}},
		{Prefix: blob{Pat: "k", N: 3}, Suffix: "b@4", Ver: 4, Val: blob{Pat: "w", N: 200}},
		{Prefix: blob{Pat: "k", N: 3}, Suffix: "c@3", Ver: 3, Tomb: true, NilVal: true}}}
	for round := 0; round < 3; round++ {
		for _, k := range []string{"data", "index", "table", "wal", "footer"} {
			small.Kind = k
			if m := runSizeMain(small, scratch); m != "" {
				return fmt.Sprintf("after a %s round trip with a value of %d MiB, an ordinary small one failed: %s", c.Kind, c.HugeMiB, m)
			}
		}
	}
	return ""
}

func runSizeMain(c sizeCase, scratch string) (msg string) {
	defer func() {
		if r := recover(); r != nil {
			msg = fmt.Sprintf("panic in %s codec with an entry of 64 KiB or more: %v", c.Kind, r)
		}
	}()
	es := entriesOf(c.Entries)
	switch c.Kind {
	case "footer":
		f := table.Footer{MetaBlock: table.BlockHandle{Offset: 7, Length: 11}, IndexBlock: table.BlockHandle{Offset: 18, Length: 5}, Magic: tableMagic()}
		b, err := f.Encode()
		if err != nil {
			return "Footer.Encode: " + err.Error()
		}
		var out table.Footer
		if err := out.Decode(b); err != nil {
			return "Footer.Decode of own encoding: " + err.Error()
		}
		if out != f {
			return fmt.Sprintf("footer round trip: %+v vs %+v", out, f)
		}
	case "data":
		d := table.Data{Entries: es}
		b, err := d.Encode()
		if err != nil {
			return "" // a clean refusal is not a round-trip failure
		}
		var out table.Data
		if err := out.Decode(b); err != nil {
			return "Data.Decode of own encoding (>= 64 KiB entry): " + err.Error()
		}
		if m := cmpEntries(out.Entries, es); m != "" {
			return "data block round trip (>= 64 KiB entry): " + m
		}
	case "table":
		_, tb := table.Build(es, c.Block, 0)
		whole, per, _, err := decodeTable(bytes.Clone(tb))
		if err != nil {
			return "table decode (>= 64 KiB entry): " + err.Error()
		}
		if m := cmpEntries(whole, es); m != "" {
			return "table round trip (>= 64 KiB entry): " + m
		}
		if m := cmpEntries(per, es); m != "" {
			return "table block round trip (>= 64 KiB entry): " + m
		}
	case "index":
		ix := table.Index{}
		for i, e := range es {
			ix.Entries = append(ix.Entries, table.IndexEntry{StartKey: e.Key, EndKey: e.Key + "~", DataHandle: table.BlockHandle{Offset: uint64(i), Length: 7}})
		}
		b, err := ix.Encode()
		if err != nil {
			return ""
		}
		var out table.Index
		if err := out.Decode(b); err != nil {
			return "Index.Decode of own encoding (>= 64 KiB key): " + err.Error()
		}
		if len(out.Entries) != len(ix.Entries) {
			return fmt.Sprintf("index round trip (>= 64 KiB key): %d vs %d entries", len(out.Entries), len(ix.Entries))
		}
		for i := range ix.Entries {
			if out.Entries[i] != ix.Entries[i] {
				return fmt.Sprintf("index round trip (>= 64 KiB key): entry %d differs", i)
			}
		}
	case "wal":
		dir := filepath.Join(scratch, "walbig")
		_ = os.RemoveAll(dir)
		if err := os.MkdirAll(dir, 0o755); err != nil {
			return ""
		}
		defer os.RemoveAll(dir)
		w, err := wal.Create(dir)
		if err != nil {
			return "wal.Create: " + err.Error()
		}
		if err := w.Write(es...); err != nil {
			return ""
		}
		got, err := w.Read()
		if err != nil {
			return "WAL.Read (>= 64 KiB entry): " + err.Error()
		}
		if m := cmpEntries(got, es); m != "" {
			return "wal round trip (>= 64 KiB entry): " + m
		}
		_ = w.Delete()
	}
	return ""
}

func TestC11Size(t *testing.T) {
	rec := vlib.For("C11", "TestC11Size")
	scratch := os.Getenv("VERIF_SCRATCH")
	if scratch == "" {
		scratch = t.TempDir()
	}
	if rc := vlib.ReplayCase(); rc != nil {
		var c sizeCase
		if err := json.Unmarshal(rc, &c); err != nil {
			t.Fatalf("bad replay case: %v", err)
		}
		if msg := runSize(c, scratch); msg != "" {
			rec.Violation("codec_length_overflow", msg, rc, nil)
			t.Fatalf("%s", msg)
		}
		return
	}
	rapid.Check(t, func(rt *rapid.T) {
		c := rapid.Custom(genSizeCase).Draw(rt, "case")
		cj := vlib.JSON(c)
		rec.Begin(cj)
		msg := runSize(c, scratch)
		cls := []string{"size_ge_64k", "size_kind_" + c.Kind}
		if c.HugeMiB > 0 {
			cls = append(cls, "value_of_many_MiB_then_small_round_trips")
		}
		rec.End(cj, true, cls...)
		if msg != "" {
			rec.Violation("codec_length_overflow", msg, cj, nil)
			rt.Fatalf("%s", msg)
		}
	})
}

// ---- concurrent use of the encoders and the wal (run with the race detector) ----

type codecConcCase struct {
	Goroutines int   `json:"goroutines"`
	Iters      int   `json:"iters"`
	Seed       int64 `json:"seed"`
	MaxEntries int   `json:"max_entries"`
	MaxVal     int   `json:"max_val"`
}

func runCodecConc(c codecConcCase, scratch string) (msg string) {
	dir := filepath.Join(scratch, "walconc")
	_ = os.RemoveAll(dir)
	if err := os.MkdirAll(dir, 0o755); err != nil {
		return ""
	}
	defer os.RemoveAll(dir)
	shared, err := wal.Create(dir) // one wal appended to by several goroutines (WAL has its own mutex)
	if err != nil {
		return "wal.Create: " + err.Error()
	}
	var mu sync.Mutex
	fail := ""
	setFail := func(s string) {
		mu.Lock()
		if fail == "" {
			fail = s
		}
		mu.Unlock()
	}
	var walMu sync.Mutex
	var walWritten [][]types.Entry
	var wg sync.WaitGroup
	for g := 0; g < c.Goroutines; g++ {
		wg.Add(1)
		go func(g int) {
			defer wg.Done()
			defer func() {
				if r := recover(); r != nil {
					setFail(fmt.Sprintf("panic in goroutine %d: %v", g, r))
				}
			}()
			rng := newRand(c.Seed + int64(g)*104729)
			mk := func() []types.Entry {
				n := 1 + rng.Intn(c.MaxEntries)
				es := make([]types.Entry, n)
				pfx := fmt.Sprintf("g%d-%d-", g, rng.Intn(1000))
				for i := range es {
					v := make([]byte, rng.Intn(c.MaxVal+1))
					for j := range v {
						v[j] = byte(rng.Intn(256))
					}
					es[i] = types.Entry{Key: fmt.Sprintf("%s%04d@%d", pfx, i, rng.Intn(50)), Value: v, Tombstone: rng.Intn(4) == 0, Version: int64(rng.Intn(50))}
				}
				return es
			}
			var keptBytes []byte
			var keptEntries []types.Entry
			for it := 0; it < c.Iters; it++ {
				es := mk()
				switch rng.Intn(4) {
				case 0, 1:
					d := table.Data{Entries: es}
					b, err := d.Encode()
					if err != nil {
						setFail("Data.Encode: " + err.Error())
						return
					}
					var out table.Data
					if err := out.Decode(b); err != nil {
						setFail("Data.Decode of own encoding under concurrency: " + err.Error())
						return
					}
					if m := cmpEntries(out.Entries, es); m != "" {
						setFail("concurrent data round trip: " + m)
						return
					}
					if keptBytes != nil {
						var again table.Data
						if err := again.Decode(keptBytes); err != nil {
							setFail("retained encoding no longer decodes: " + err.Error())
							return
						}
						if m := cmpEntries(again.Entries, keptEntries); m != "" {
							setFail("retained encoding changed after other goroutines encoded: " + m)
							return
						}
					}
					keptBytes, keptEntries = b, es
				case 2:
					_, tb := table.Build(es, 100+rng.Intn(300), 0)
					whole, per, _, err := decodeTable(tb)
					if err != nil {
						setFail("concurrent table decode: " + err.Error())
						return
					}
					if m := cmpEntries(whole, es); m != "" {
						setFail("concurrent table round trip: " + m)
						return
					}
					if m := cmpEntries(per, es); m != "" {
						setFail("concurrent table block round trip: " + m)
						return
					}
				case 3:
					walMu.Lock() // order of appends must be known to compare
					if err := shared.Write(es...); err != nil {
						walMu.Unlock()
						setFail("WAL.Write: " + err.Error())
						return
					}
					walWritten = append(walWritten, es)
					walMu.Unlock()
				}
			}
		}(g)
	}
	wg.Wait()
	if fail != "" {
		return fail
	}
	got, err := shared.Read()
	if err != nil {
		return "WAL.Read after concurrent appends: " + err.Error()
	}
	var want []types.Entry
	for _, es := range walWritten {
		want = append(want, es...)
	}
	if m := cmpEntries(got, want); m != "" {
		return "wal round trip after concurrent encoder activity: " + m
	}
	_ = shared.Delete()
	return ""
}

func TestC11Conc(t *testing.T) {
	rec := vlib.For("C11", "TestC11Conc")
	scratch := os.Getenv("VERIF_SCRATCH")
	if scratch == "" {
		scratch = t.TempDir()
	}
	run := func(c codecConcCase, cj []byte, fatal func(string, ...any)) {
		rec.Begin(cj)
		msg := runCodecConc(c, scratch)
		rec.End(cj, c.Goroutines >= 2, "concurrent_encoders")
		if msg != "" {
			rec.Violation("codec_concurrent", msg, cj, nil)
			fatal("%s", msg)
		}
	}
	if rc := vlib.ReplayCase(); rc != nil {
		var c codecConcCase
		if err := json.Unmarshal(rc, &c); err != nil {
			t.Fatalf("bad replay case: %v", err)
		}
		for i := 0; i < 30; i++ {
			run(c, rc, t.Fatalf)
		}
		return
	}
	rapid.Check(t, func(rt *rapid.T) {
		c := codecConcCase{
			Goroutines: rapid.IntRange(2, 5).Draw(rt, "goroutines"),
			Iters:      rapid.IntRange(2, 8).Draw(rt, "iters"),
			Seed:       rapid.Int64().Draw(rt, "seed"),
			MaxEntries: rapid.SampledFrom([]int{1, 5, 12}).Draw(rt, "maxEntries"),
			MaxVal:     rapid.SampledFrom([]int{0, 10, 300, 5000}).Draw(rt, "maxVal"),
		}
		run(c, vlib.JSON(c), rt.Fatalf)
	})
}
