//go:build verif

package pure

import (
	"math/rand"
	"os"
	"testing"

	"verif/harness/vlib"
)

func TestMain(m *testing.M) { os.Exit(vlib.Main(m)) }

func newRand(seed int64) *rand.Rand { return rand.New(rand.NewSource(seed)) }
