//go:build verif

package pure

import (
	"os"
	"testing"

	"verif/harness/vlib"
)

func TestMain(m *testing.M) { os.Exit(vlib.Main(m)) }
