//go:build verif

// Package conc is engine E3: real goroutines on one DB handle, built with the
// race detector, free-running background flusher, complete history recorded
// and judged afterwards (porcupine), watchdog with a goroutine-dump deadlock
// criterion. C12 C15 and the "all schedules" halves of C05 C06 C07.
package conc

import (
	"encoding/json"
	"errors"
	"fmt"
	"math/rand"
	"os"
	"path/filepath"
	"regexp"
	"runtime"
	"sort"
	"strings"
	"sync"
	"sync/atomic"
	"testing"
	"time"

	"github.com/B1NARY-GR0UP/originium"
	"github.com/B1NARY-GR0UP/originium/pkg/verifhook"
	"pgregory.net/rapid"

	"verif/harness/vlib"
	"verif/harness/vlib/hist"
)

func TestMain(m *testing.M) { os.Exit(vlib.Main(m)) }

type Cfg struct {
	SkipListMaxLevel int     `json:"sl_max_level"`
	SkipListP        float64 `json:"sl_p"`
	MemThreshold     int     `json:"mem_threshold"`
	ImmBuf           int     `json:"imm_buffer"`
	Block            int     `json:"block"`
	L0Target         int     `json:"l0_target"`
	Ratio            int     `json:"ratio"`
}

func toConfig(c Cfg) originium.Config {
	return originium.Config{
		SkipListMaxLevel: c.SkipListMaxLevel, SkipListP: c.SkipListP,
		MemtableByteThreshold: c.MemThreshold, ImmutableBuffer: c.ImmBuf,
		DataBlockByteThreshold: c.Block, L0TargetNum: c.L0Target, LevelRatio: c.Ratio,
	}
}

// Workload: every goroutine derives its transaction scripts from Seed (drawn by
// rapid), so a case is a pure function of the drawn values; only the schedule is not.
type Workload struct {
	Cfg        Cfg        `json:"cfg"`
	Keys       []vlib.Str `json:"keys"`
	Goroutines int        `json:"goroutines"`
	Txns       int        `json:"txns_per_goroutine"`
	Seed       int64      `json:"seed"`
	ReadOnlyPc int        `json:"read_only_pct"`
	ClosurePc  int        `json:"closure_pct"` // share of transactions run through Update/View
	Retry      bool       `json:"retry_on_conflict"`
	MaxOps     int        `json:"max_ops"`
	Big        bool       `json:"big"` // 3x the transactions: too long for the history oracles, judged by race detector / panics / watchdog / final state only
}

func genWorkload(t *rapid.T) Workload {
	w := Workload{
		Cfg: Cfg{
			SkipListMaxLevel: rapid.SampledFrom([]int{1, 4, 9}).Draw(t, "slMax"),
			SkipListP:        rapid.SampledFrom([]float64{0.25, 0.5}).Draw(t, "slP"),
			MemThreshold:     rapid.SampledFrom([]int{50, 100, 200, 400}).Draw(t, "mem"),
			ImmBuf:           rapid.SampledFrom([]int{0, 0, 1, 2, 3}).Draw(t, "immBuf"),
			Block:            rapid.SampledFrom([]int{4096, 4096, 200}).Draw(t, "block"),
			L0Target:         rapid.SampledFrom([]int{1, 2}).Draw(t, "l0"),
			Ratio:            rapid.SampledFrom([]int{1, 2}).Draw(t, "ratio"),
		},
		Goroutines: rapid.IntRange(2, 8).Draw(t, "goroutines"),
		Txns:       rapid.IntRange(4, 14).Draw(t, "txns"),
		Big:        rapid.IntRange(0, 3).Draw(t, "big") == 0,
		Seed:       rapid.Int64().Draw(t, "seed"),
		ReadOnlyPc: rapid.SampledFrom([]int{0, 20, 40}).Draw(t, "ro"),
		ClosurePc:  rapid.SampledFrom([]int{0, 30, 100}).Draw(t, "closure"),
		Retry:      rapid.Bool().Draw(t, "retry"),
		MaxOps:     rapid.IntRange(2, 6).Draw(t, "maxOps"),
	}
	nk := rapid.IntRange(3, 6).Draw(t, "nkeys")
	seen := map[string]bool{}
	for len(w.Keys) < nk {
		k := rapid.SampledFrom(vlib.Pool).Draw(t, "key")
		if !seen[k] {
			seen[k] = true
			w.Keys = append(w.Keys, vlib.Str(k))
			if sib, ok := vlib.Sibling[k]; ok && !seen[sib] && len(w.Keys) < nk && rapid.Bool().Draw(t, "sibling") {
				seen[sib] = true
				w.Keys = append(w.Keys, vlib.Str(sib))
			}
		}
	}
	return w
}

type runResult struct {
	hist      []hist.Txn
	problems  []problem
	rotations int64
	flushes   int64
	commits   int
	conflicts int
	finalDiff string
	stuck     bool // goroutines of this run are still alive: the process must not run another case
}

type problem struct {
	kind, msg string
}

var nowBase = time.Now()

func stamp() int64 { return int64(time.Since(nowBase)) }

var flushCount, rotateCount atomic.Int64

func init() {
	verifhook.SetHandler(func(site, dir string) {
		switch site {
		case "flusher.flushed":
			flushCount.Add(1)
		case "rotate.send":
			rotateCount.Add(1)
		}
		if g := gate.Load(); g != nil {
			g.handle(site, dir)
		}
	})
}

// runWorkload executes the workload on a fresh directory and records the history.
func runWorkload(w Workload, dir string, hangLimit time.Duration) (res runResult) {
	_ = os.RemoveAll(dir)
	defer os.RemoveAll(dir)
	f0, r0 := flushCount.Load(), rotateCount.Load()
	db, err := originium.Open(dir, toConfig(w.Cfg))
	if err != nil {
		res.problems = append(res.problems, problem{"panic", "Open failed: " + err.Error()})
		return
	}
	var mu sync.Mutex
	var txid atomic.Int64
	add := func(t hist.Txn) {
		progress.Add(1)
		mu.Lock()
		res.hist = append(res.hist, t)
		mu.Unlock()
	}
	prob := func(kind, msg string) {
		mu.Lock()
		res.problems = append(res.problems, problem{kind, msg})
		mu.Unlock()
	}
	var wg sync.WaitGroup
	for g := 0; g < w.Goroutines; g++ {
		wg.Add(1)
		go func(g int) {
			defer wg.Done()
			defer func() {
				if r := recover(); r != nil {
					buf := make([]byte, 4096)
					buf = buf[:runtime.Stack(buf, false)]
					prob("panic", fmt.Sprintf("goroutine %d panicked: %v\n%s", g, r, buf))
				}
			}()
			rng := rand.New(rand.NewSource(w.Seed + int64(g)*1000003))
			ntx := w.Txns
			if w.Big {
				ntx *= 3
			}
			for n := 0; n < ntx; n++ {
				ro := rng.Intn(100) < w.ReadOnlyPc
				closure := rng.Intn(100) < w.ClosurePc
				nops := 1 + rng.Intn(w.MaxOps)
				type op struct {
					get, del bool
					k        int
				}
				ops := make([]op, nops)
				for i := range ops {
					ops[i] = op{get: ro || rng.Intn(100) < 45, del: rng.Intn(100) < 15, k: rng.Intn(len(w.Keys))}
				}
				for attempt := 0; attempt < 4; attempt++ {
					id := int(txid.Add(1))
					h := hist.Txn{ID: id, Client: g, RW: !ro}
					buffer := map[int]bool{}
					var order []int
					vals := map[int]hist.Write{}
					body := func(tx *originium.Txn) error {
						for i, o := range ops {
							key := string(w.Keys[o.k])
							switch {
							case o.get:
								v, ok := tx.Get(key)
								if !buffer[o.k] {
									h.Reads = append(h.Reads, hist.Read{K: o.k, V: string(v), Found: ok})
								} else {
									// read of an own write: must be exactly what was written
									want := vals[o.k]
									if ok == want.Del || (ok && string(v) != want.V) {
										prob("own_write_read", fmt.Sprintf("txn %d read its own write of %q as (%q,%v), wrote (%q, del=%v)", id, key, v, ok, want.V, want.Del))
									}
								}
							case o.del:
								if err := tx.Delete(key); err != nil {
									return err
								}
								if !buffer[o.k] {
									order = append(order, o.k)
								}
								buffer[o.k] = true
								vals[o.k] = hist.Write{K: o.k, Del: true}
							default:
								v := fmt.Sprintf("%d.%d", id, i)
								if err := tx.Set(key, []byte(v)); err != nil {
									return err
								}
								if !buffer[o.k] {
									order = append(order, o.k)
								}
								buffer[o.k] = true
								vals[o.k] = hist.Write{K: o.k, V: v}
							}
						}
						return nil
					}
					var err error
					h.BeginCall = stamp()
					if closure {
						fn := func(tx *originium.Txn) error {
							h.BeginRet = stamp()
							e := body(tx)
							h.EndCall = stamp()
							return e
						}
						if ro {
							err = db.View(fn)
						} else {
							err = db.Update(fn)
						}
						h.EndRet = stamp()
					} else {
						tx := db.Begin(!ro)
						h.BeginRet = stamp()
						err = body(tx)
						if err == nil {
							h.EndCall = stamp()
							if ro {
								tx.Discard()
							} else {
								err = tx.Commit()
							}
							h.EndRet = stamp()
						} else {
							h.EndCall = stamp()
							tx.Discard()
							h.EndRet = stamp()
						}
					}
					for _, k := range order {
						h.Writes = append(h.Writes, vals[k])
					}
					switch {
					case err == nil && ro:
						h.Outcome = "discard"
					case err == nil:
						h.Outcome = "commit"
					case errors.Is(err, originium.ErrConflictTxn):
						h.Outcome = "conflict"
					default:
						h.Outcome = "error"
						prob("unexpected_error", fmt.Sprintf("txn %d returned %v", id, err))
					}
					add(h)
					if h.Outcome != "conflict" || !w.Retry {
						break
					}
				}
			}
		}(g)
	}
	done := make(chan struct{})
	go func() { wg.Wait(); close(done) }()
	finished := false
	lastP, idle := progress.Load(), 0
	for rounds := 0; rounds < 40 && idle < 6 && !finished; rounds++ {
		select {
		case <-done:
			finished = true
		case <-time.After(hangLimit):
			// slow is not stuck: as long as transactions keep finishing, keep waiting
			if now := progress.Load(); now != lastP {
				lastP, idle = now, 0
			} else {
				idle++
			}
			if dump, ok := confirmedDeadlock(); ok {
				// the workers are stuck for good and still own res: hand back a detached result
				mu.Lock()
				out := runResult{stuck: true, problems: append(append([]problem{}, res.problems...), problem{"deadlock", "workers did not finish and no goroutine of the engine or the workload can run:\n" + trimDump(dump)})}
				mu.Unlock()
				return out
			}
		}
	}
	if !finished {
		mu.Lock()
		out := runResult{stuck: true, problems: append(append([]problem{}, res.problems...), problem{"inconclusive_slow", "workers did not finish within the watchdog limit but goroutines are still runnable"})}
		mu.Unlock()
		return out
	}
	// final read, Close, immediate reopen, read again
	final := readAll(db, w.Keys)
	fh := hist.Txn{ID: int(txid.Add(1)), Client: w.Goroutines, BeginCall: stamp()}
	fh.BeginRet = fh.BeginCall
	for k, v := range final {
		fh.Reads = append(fh.Reads, hist.Read{K: k, V: v.v, Found: v.ok})
	}
	sort.Slice(fh.Reads, func(i, j int) bool { return fh.Reads[i].K < fh.Reads[j].K })
	fh.EndCall, fh.EndRet, fh.Outcome = stamp(), stamp(), "discard"
	res.hist = append(res.hist, fh)
	closed := make(chan any, 1)
	go func() {
		defer func() { closed <- recover() }()
		db.Close()
	}()
	select {
	case p := <-closed:
		if p != nil {
			res.problems = append(res.problems, problem{"panic", fmt.Sprintf("Close panicked: %v", p)})
			return
		}
	case <-time.After(hangLimit):
		if dump, ok := confirmedDeadlock(); ok {
			res.problems = append(res.problems, problem{"deadlock", "Close did not return and no goroutine of the engine can run:\n" + trimDump(dump)})
		} else {
			res.problems = append(res.problems, problem{"inconclusive_slow", "Close did not return within the watchdog limit"})
		}
		return
	}
	originium.VerifStopOracle(db)
	before := listDir(dir)
	db2, err := originium.Open(dir, toConfig(w.Cfg))
	if err != nil {
		res.problems = append(res.problems, problem{"reopen", "Open right after Close failed: " + err.Error()})
		return
	}
	after := readAll(db2, w.Keys)
	for k := range w.Keys {
		if final[k] != after[k] {
			res.finalDiff = fmt.Sprintf("key %q read (%q,%v) before Close and (%q,%v) after an immediate reopen", string(w.Keys[k]), final[k].v, final[k].ok, after[k].v, after[k].ok)
			break
		}
	}
	_ = before
	originium.VerifAbandon(db2)
	res.flushes = flushCount.Load() - f0
	res.rotations = rotateCount.Load() - r0
	for _, t := range res.hist {
		switch t.Outcome {
		case "commit":
			res.commits++
		case "conflict":
			res.conflicts++
		}
	}
	return
}

type rv struct {
	v  string
	ok bool
}

func readAll(db *originium.DB, keys []vlib.Str) map[int]rv {
	out := map[int]rv{}
	_ = db.View(func(tx *originium.Txn) error {
		for i, k := range keys {
			v, ok := tx.Get(string(k))
			out[i] = rv{string(v), ok}
		}
		return nil
	})
	return out
}

func listDir(dir string) string {
	ents, _ := os.ReadDir(dir)
	var s []string
	for _, e := range ents {
		if info, err := e.Info(); err == nil {
			s = append(s, fmt.Sprintf("%s:%d", e.Name(), info.Size()))
		}
	}
	return strings.Join(s, " ")
}

func goroutineDump() string {
	buf := make([]byte, 4<<20)
	return string(buf[:runtime.Stack(buf, true)])
}

var hdrRe = regexp.MustCompile(`^goroutine \d+ \[([^\],]+)`)

// deadlocked: every goroutine that runs engine or workload code is parked in a state
// that only another goroutine can end, and none of them is runnable.
func deadlocked(dump string) bool {
	relevant, blocked := 0, 0
	for _, g := range strings.Split(dump, "\n\n") {
		if strings.Contains(g, "goroutineDump") {
			continue // the watchdog itself
		}
		m := hdrRe.FindStringSubmatch(strings.TrimLeft(g, "\n"))
		if m == nil {
			continue
		}
		if !strings.Contains(g, "B1NARY-GR0UP/originium") && !strings.Contains(g, "checks/conc.") {
			// a goroutine of a library the engine uses (the s2 writer compresses blocks on
			// goroutines of its own): if it can run, whoever waits for it is not stuck
			switch m[1] {
			case "runnable", "running", "syscall":
				return false
			}
			continue
		}
		relevant++
		switch m[1] {
		case "chan receive", "chan send", "select", "semacquire", "sync.Mutex.Lock", "sync.RWMutex.RLock", "sync.RWMutex.Lock", "sync.Cond.Wait", "sync.WaitGroup.Wait", "select (no cases)", "chan receive (nil chan)", "chan send (nil chan)":
			if strings.Contains(g, "time.Sleep") || strings.Contains(g, "time.After") || strings.Contains(g, "(*Timer)") || strings.Contains(g, "(*Ticker)") {
				return false // something with a timer can still wake up
			}
			blocked++
		default:
			return false
		}
	}
	return relevant > 0 && relevant == blocked
}

func trimDump(d string) string {
	var keep []string
	for _, g := range strings.Split(d, "\n\n") {
		if strings.Contains(g, "B1NARY-GR0UP/originium") || strings.Contains(g, "checks/conc.") {
			if len(g) > 900 {
				g = g[:900] + "\n\t..."
			}
			keep = append(keep, g)
		}
	}
	s := strings.Join(keep, "\n\n")
	if len(s) > 9000 {
		s = s[:9000] + "\n..."
	}
	return s
}

// which problem kinds a property owns in the concurrent engine
var owns = map[string]map[string]bool{
	"C12": {"deadlock": true, "panic": true, "own_write_read": true, "unexpected_error": true, "snapshot_history": true, "not_serializable": true, "over_abort": true},
	"C05": {"snapshot_history": true, "own_write_read": true},
	"C06": {"not_serializable": true},
	"C07": {"over_abort": true},
	"C15": {"deadlock": true, "reopen": true, "reopen_state": true, "panic": true},
}

func judgeHistory(res *runResult) {
	if len(res.hist) == 0 {
		return
	}
	if len(res.hist) > 130 {
		res.problems = append(res.problems, problem{"inconclusive_history_too_long", "history not decided"})
		if bad := hist.OverAborts(res.hist); len(bad) > 0 {
			res.problems = append(res.problems, problem{"over_abort", fmt.Sprintf("transactions %v were refused although no transaction that committed during their lifetime wrote a key they had read from the store", bad)})
		}
		return
	}
	budget := 20 * time.Second
	if r := hist.CheckSnapshots(res.hist, nil, budget); r.Verdict == "illegal" {
		res.problems = append(res.problems, problem{"snapshot_history", fmt.Sprintf("porcupine: no commit order exists of which every transaction's reads are a prefix that respects real time (%d operations)", r.Ops)})
	} else if r.Verdict == "unknown" {
		res.problems = append(res.problems, problem{"inconclusive_porcupine", "split history undecided within budget"})
	}
	if r := hist.CheckSerializable(res.hist, nil, budget); r.Verdict == "illegal" {
		res.problems = append(res.problems, problem{"not_serializable", fmt.Sprintf("porcupine: the %d committed/read-only transactions have no serial order that respects real time and explains every read", r.Ops)})
	} else if r.Verdict == "unknown" {
		res.problems = append(res.problems, problem{"inconclusive_porcupine", "serializability undecided within budget"})
	}
	if bad := hist.OverAborts(res.hist); len(bad) > 0 {
		res.problems = append(res.problems, problem{"over_abort", fmt.Sprintf("transactions %v were refused although no transaction that committed during their lifetime wrote a key they had read from the store", bad)})
	}
}

func scratch(t *testing.T) string {
	d := os.Getenv("VERIF_SCRATCH")
	if d == "" {
		d = t.TempDir()
	}
	return d
}

func concTest(t *testing.T, prop string) {
	rec := vlib.For(prop, "Test"+prop+"Conc")
	dir := filepath.Join(scratch(t), "db")
	one := func(w Workload, cj []byte, fatal func(string, ...any)) {
		rec.Begin(cj)
		res := runWorkload(w, dir, 60*time.Second)
		judgeHistory(&res)
		if res.finalDiff != "" {
			res.problems = append(res.problems, problem{"reopen_state", res.finalDiff})
		}
		classes := []string{fmt.Sprintf("goroutines_%d", w.Goroutines)}
		if res.rotations >= 5 {
			classes = append(classes, "ge5_rotations")
		}
		if res.rotations >= 20 {
			classes = append(classes, "ge20_rotations")
		}
		if res.flushes >= 3 {
			classes = append(classes, "ge3_flushes")
		}
		if res.conflicts > 0 {
			classes = append(classes, "conflicts_occurred")
		}
		if w.Cfg.ImmBuf == 0 {
			classes = append(classes, "queue_length_zero")
		}
		var mine *problem
		for i := range res.problems {
			p := res.problems[i]
			if owns[prop][p.kind] {
				if mine == nil {
					mine = &res.problems[i]
				}
			} else if strings.HasPrefix(p.kind, "inconclusive") {
				rec.Count(p.kind, 1)
			} else {
				rec.Count("foreign_"+p.kind, 1)
			}
		}
		rec.Count("transactions", int64(len(res.hist)))
		rec.Count("commits", int64(res.commits))
		rec.Count("conflicts", int64(res.conflicts))
		rec.Count("rotations", res.rotations)
		nontrivial := res.rotations >= 5 && res.flushes >= 2 && w.Goroutines >= 2 && res.commits >= 5
		rec.End(cj, mine == nil && nontrivial, classes...)
		if mine != nil {
			rec.Violation(mine.kind, mine.msg, cj, map[string]any{"history": res.hist})
			if res.stuck {
				vlib.FlushAll(false)
				fmt.Fprintf(os.Stderr, "%s: %s\n", mine.kind, mine.msg)
				os.Exit(1)
			}
			fatal("%s: %s", mine.kind, mine.msg)
		}
		if res.stuck {
			rec.Note("a run was abandoned with live goroutines (inconclusive); the shard stops here")
			vlib.FlushAll(false)
			os.Exit(3)
		}
	}
	if rc := vlib.ReplayCase(); rc != nil {
		var w Workload
		if err := json.Unmarshal(rc, &w); err != nil {
			t.Fatalf("bad replay case: %v", err)
		}
		for i := 0; i < 50; i++ {
			one(w, rc, t.Fatalf)
		}
		return
	}
	rapid.Check(t, func(rt *rapid.T) {
		w := rapid.Custom(genWorkload).Draw(rt, "workload")
		one(w, vlib.JSON(w), rt.Fatalf)
	})
}

func TestC12Conc(t *testing.T) { concTest(t, "C12") }
func TestC05Conc(t *testing.T) { concTest(t, "C05") }
func TestC06Conc(t *testing.T) { concTest(t, "C06") }
func TestC07Conc(t *testing.T) { concTest(t, "C07") }
func TestC15Conc(t *testing.T) { concTest(t, "C15") }

// ---- contention stress: many goroutines hammering Begin/Commit on one or two counters ------
//
// A serializability bug that needs one goroutine to lose the CPU inside a few instructions of
// the oracle (e.g. between taking a read timestamp and registering it) is out of reach of the
// history-recording workloads above. Here the oracle's mutex is kept saturated (that also puts
// sync.Mutex into starvation mode, where Unlock hands over and yields), and the oracle is a
// counter: every acknowledged read-modify-write increment must be reflected in the final value.

type Stress struct {
	Cfg      Cfg `json:"cfg"`
	Writers  int `json:"writers"`
	Readers  int `json:"readers"`
	Counters int `json:"counters"`
	Incs     int `json:"increments_per_writer"`
	Procs    int `json:"gomaxprocs"`
}

var stressOvertaken, stressProbed atomic.Int64

const nslots = 256

// slotWrites is the harness-side log of acknowledged slot writes (slot, value, time of Commit's return).
type slotWrite struct {
	slot int
	val  string
	at   int64
}

type slotWrites struct {
	mu  sync.Mutex
	log []slotWrite
}

func (l *slotWrites) add(slot int, val string) {
	l.mu.Lock()
	l.log = append(l.log, slotWrite{slot, val, stamp()})
	if len(l.log) > 20000 {
		l.log = append([]slotWrite{}, l.log[10000:]...)
	}
	l.mu.Unlock()
}

// writtenOnceSince: a slot with exactly one acknowledged write whose Commit returned after t0.
func (l *slotWrites) writtenOnceSince(t0 int64) (int, string, bool) {
	l.mu.Lock()
	defer l.mu.Unlock()
	cnt := map[int]int{}
	val := map[int]string{}
	for i := len(l.log) - 1; i >= 0 && l.log[i].at >= t0; i-- {
		cnt[l.log[i].slot]++
		val[l.log[i].slot] = l.log[i].val
	}
	for sl, n := range cnt {
		if n == 1 {
			return sl, val[sl], true
		}
	}
	return 0, "", false
}

func slotKey(i int) string { return fmt.Sprintf("slot%d", i) }

func runStress(s Stress, dir string) (problems []problem, acked int64) {
	defer func() {
		// (filled below through the closure counters)
	}()
	_ = os.RemoveAll(dir)
	defer os.RemoveAll(dir)
	old := runtime.GOMAXPROCS(s.Procs)
	defer runtime.GOMAXPROCS(old)
	db, err := originium.Open(dir, toConfig(s.Cfg))
	if err != nil {
		return []problem{{"panic", "Open failed: " + err.Error()}}, 0
	}
	var mu sync.Mutex
	prob := func(kind, msg string) {
		mu.Lock()
		if len(problems) < 5 {
			problems = append(problems, problem{kind, msg})
		}
		mu.Unlock()
	}
	keys := make([]string, s.Counters)
	for i := range keys {
		keys[i] = fmt.Sprintf("ctr%d", i)
	}
	_ = db.Update(func(tx *originium.Txn) error {
		for _, k := range keys {
			if err := tx.Set(k, []byte("0")); err != nil {
				return err
			}
		}
		return nil
	})
	ack := make([]atomic.Int64, s.Counters)
	var frozen [nslots]atomic.Bool
	slotLog := &slotWrites{}
	_ = db.Update(func(tx *originium.Txn) error {
		for i := 0; i < nslots; i++ {
			if err := tx.Set(slotKey(i), []byte("init")); err != nil {
				return err
			}
		}
		return nil
	})
	var stop atomic.Bool
	var overtaken, probed atomic.Int64
	var wg, rg sync.WaitGroup
	for r := 0; r < s.Readers; r++ {
		rg.Add(1)
		go func(r int) {
			defer rg.Done()
			defer func() {
				if rc := recover(); rc != nil {
					prob("panic", fmt.Sprintf("reader %d panicked: %v", r, rc))
				}
			}()
			probeSeq := 0
			for r%2 == 1 && !stop.Load() {
				// slot probe (C06/C07). STEERING: if the read watermark overtakes this (still unread)
				// transaction, the harness log of slot writes tells which slot was written exactly once
				// while its Begin was in progress. VERDICT (valid for any transaction): it reads that slot
				// from the store and gets the OLD value, so the write is after its snapshot; the slot is
				// frozen, the engine runs on; its own write to the slot must then be refused.
				t0 := stamp()
				tx := db.Begin(true)
				if !originium.VerifTxnOvertaken(tx) {
					tx.Discard()
					continue
				}
				overtaken.Add(1)
				sl, newVal, ok := slotLog.writtenOnceSince(t0)
				if !ok || frozen[sl].Swap(true) {
					tx.Discard()
					continue
				}
				s0, sok := tx.Get(slotKey(sl))
				// the verdict does not trust the log: a transaction begun after this one's Begin returned
				// must read a different value of the slot, which proves a commit to it after this snapshot
				changed := false
				_ = db.View(func(f *originium.Txn) error {
					if v, ok := f.Get(slotKey(sl)); ok != sok || string(v) != string(s0) {
						changed = true
					}
					return nil
				})
				_ = newVal
				if !changed {
					frozen[sl].Store(false)
					tx.Discard()
					continue
				}
				for i := 0; i < 1500 && !stop.Load(); i++ {
					_ = db.View(func(f *originium.Txn) error { f.Get(slotKey(sl)); return nil })
					runtime.Gosched()
				}
				_ = tx.Set(slotKey(sl), []byte("mine"))
				probed.Add(1)
				err := tx.Commit()
				frozen[sl].Store(false)
				if err == nil {
					prob("not_serializable", fmt.Sprintf("a transaction read %q = (%q,%v) from the store; a transaction begun later read another value (so a commit to it lies after the first one's snapshot), yet the first one's own write to %q was committed instead of refused (lost update)", slotKey(sl), s0, sok, slotKey(sl)))
					stop.Store(true)
				}
			}
			for !stop.Load() {
				tx := db.Begin(true)
				k := keys[r%len(keys)]
				v1, ok1 := tx.Get(k)
				v2, ok2 := tx.Get(k)
				if ok1 != ok2 || string(v1) != string(v2) {
					prob("snapshot_history", fmt.Sprintf("one transaction read %q twice and got (%q,%v) then (%q,%v)", k, v1, ok1, v2, ok2))
				}
				if !originium.VerifTxnOvertaken(tx) {
					tx.Discard()
					continue
				}
				// STEERING ONLY: the read watermark has moved past this open transaction, which makes
				// it the one worth keeping open. The probe below is valid for ANY transaction: it read k
				// from the store, k is then overwritten by others, so (a) it must keep reading the same
				// value and (b) its own write-commit must be refused.
				overtaken.Add(1)
				// a private key: read it from the store, overwrite it ONCE from outside, give the
				// engine time to forget that commit, then try to commit a write to it
				kp := fmt.Sprintf("probe%d", r)
				p0, pok := tx.Get(kp)
				probeSeq++
				if err := db.Update(func(f *originium.Txn) error { return f.Set(kp, []byte(fmt.Sprintf("o%d.%d", r, probeSeq))) }); err != nil {
					tx.Discard()
					continue
				}
				for i := 0; i < 3000 && !stop.Load(); i++ {
					_ = db.View(func(f *originium.Txn) error { f.Get(kp); return nil })
					if i%100 == 0 {
						_ = db.Update(func(f *originium.Txn) error { return f.Set(fmt.Sprintf("pad%d", r), []byte("p")) })
						// the hot counter it read first: others keep overwriting it, flushes and compactions
						// keep merging its versions; this transaction must keep reading its snapshot value
						if v3, ok3 := tx.Get(k); ok3 != ok1 || string(v3) != string(v1) {
							prob("snapshot_history", fmt.Sprintf("an open transaction read %q as (%q,%v) and, after others overwrote it and compactions ran, as (%q,%v)", k, v1, ok1, v3, ok3))
							stop.Store(true)
						}
					}
					runtime.Gosched()
				}
				if p1, ok1b := tx.Get(kp); ok1b != pok || string(p1) != string(p0) {
					prob("snapshot_history", fmt.Sprintf("an open transaction read %q as (%q,%v) and later as (%q,%v)", kp, p0, pok, p1, ok1b))
				}
				_ = tx.Set(kp, []byte("mine"))
				probed.Add(1)
				if err := tx.Commit(); err == nil {
					prob("not_serializable", fmt.Sprintf("a transaction read %q = (%q,%v) from the store, another transaction then overwrote %q and committed, yet the first one's own write to %q was committed instead of refused (lost update)", kp, p0, pok, kp, kp))
					stop.Store(true)
				}
			}
		}(r)
	}
	for w := 0; w < s.Writers; w++ {
		wg.Add(1)
		go func(w int) {
			defer wg.Done()
			defer func() {
				if rc := recover(); rc != nil {
					prob("panic", fmt.Sprintf("writer %d panicked: %v", w, rc))
				}
			}()
			ki := w % len(keys)
			for done := 0; done < s.Incs; {
				tx := db.Begin(true)
				v, ok := tx.Get(keys[ki])
				if !ok {
					prob("snapshot_history", "counter vanished")
					tx.Discard()
					return
				}
				var n int
				fmt.Sscanf(string(v), "%d", &n)
				if err := tx.Set(keys[ki], []byte(fmt.Sprintf("%d", n+1))); err != nil {
					prob("unexpected_error", err.Error())
					tx.Discard()
					return
				}
				// every commit also (blindly) rewrites one slot key, unless a probe froze it
				sl := (w*37 + done*11) % nslots
				slotVal := fmt.Sprintf("s%d.%d.%d", w, done, ki)
				wroteSlot := false
				if !frozen[sl].Load() {
					wroteSlot = tx.Set(slotKey(sl), []byte(slotVal)) == nil
				}
				err := tx.Commit()
				if err == nil && wroteSlot {
					slotLog.add(sl, slotVal)
				}
				if err == nil {
					ack[ki].Add(1)
					progress.Add(1)
					done++
				} else if !errors.Is(err, originium.ErrConflictTxn) {
					prob("unexpected_error", err.Error())
					return
				}
			}
		}(w)
	}
	fin := make(chan struct{})
	go func() { wg.Wait(); close(fin) }()
	if v := await(fin, "increment workers did not finish"); v != nil {
		stop.Store(true)
		return append(problems, *v), 0
	}
	stop.Store(true)
	rg.Wait()
	stressOvertaken.Add(overtaken.Load())
	stressProbed.Add(probed.Load())
	_ = db.View(func(tx *originium.Txn) error {
		for i, k := range keys {
			v, _ := tx.Get(k)
			var n int64
			fmt.Sscanf(string(v), "%d", &n)
			acked += ack[i].Load()
			if n != ack[i].Load() && len(problems) == 0 {
				prob("not_serializable", fmt.Sprintf("%d read-modify-write increments of %q were acknowledged but the counter reads %d (lost update)", ack[i].Load(), k, n))
			}
		}
		return nil
	})
	cl := make(chan struct{})
	go func() { db.Close(); close(cl) }()
	if v := await(cl, "Close after the stress did not return"); v != nil {
		return append(problems, *v), acked
	}
	originium.VerifStopOracle(db)
	return problems, acked
}

func stressTest(t *testing.T, prop string) {
	rec := vlib.For(prop, "Test"+prop+"Stress")
	dir := filepath.Join(scratch(t), "dbstress")
	one := func(s Stress, cj []byte, fatal func(string, ...any)) {
		rec.Begin(cj)
		probs, acked := runStress(s, dir)
		var mine *problem
		for i := range probs {
			if owns[prop][probs[i].kind] && mine == nil {
				mine = &probs[i]
			} else if strings.HasPrefix(probs[i].kind, "inconclusive") {
				rec.Note(probs[i].msg)
				vlib.FlushAll(false)
				os.Exit(3)
			}
		}
		rec.Count("stress_acknowledged_increments", acked)
		rec.Count("stress_transactions_overtaken_by_read_mark", stressOvertaken.Swap(0))
		rec.Count("stress_overtaken_transactions_probed", stressProbed.Swap(0))
		rec.End(cj, mine == nil && acked >= 100, "contention_stress")
		if mine != nil {
			rec.Violation(mine.kind, mine.msg, cj, nil)
			if mine.kind == "deadlock" {
				vlib.FlushAll(false)
				os.Exit(1)
			}
			fatal("%s: %s", mine.kind, mine.msg)
		}
	}
	if rc := vlib.ReplayCase(); rc != nil {
		var s Stress
		if err := json.Unmarshal(rc, &s); err != nil {
			t.Fatalf("bad replay case: %v", err)
		}
		for i := 0; i < 20; i++ {
			one(s, rc, t.Fatalf)
		}
		return
	}
	rapid.Check(t, func(rt *rapid.T) {
		s := Stress{
			Cfg: Cfg{SkipListMaxLevel: 9, SkipListP: 0.5, MemThreshold: rapid.SampledFrom([]int{60, 200, 200, 600}).Draw(rt, "mem"),
				ImmBuf: rapid.SampledFrom([]int{0, 2, 10}).Draw(rt, "immBuf"), Block: 4096, L0Target: rapid.SampledFrom([]int{1, 2, 5}).Draw(rt, "l0"), Ratio: 2},
			Writers:  rapid.SampledFrom([]int{16, 32, 32}).Draw(rt, "writers"),
			Readers:  rapid.SampledFrom([]int{32, 64, 64, 128}).Draw(rt, "readers"),
			Counters: rapid.IntRange(1, 2).Draw(rt, "counters"),
			Incs:     rapid.SampledFrom([]int{80, 120, 160}).Draw(rt, "incs"),
			Procs:    rapid.SampledFrom([]int{2, 4, 4}).Draw(rt, "procs"),
		}
		one(s, vlib.JSON(s), rt.Fatalf)
	})
}

func TestC06Stress(t *testing.T) { stressTest(t, "C06") }
func TestC05Stress(t *testing.T) { stressTest(t, "C05") }
func TestC12Stress(t *testing.T) { stressTest(t, "C12") }
