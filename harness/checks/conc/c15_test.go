//go:build verif

package conc

import (
	"encoding/json"
	"fmt"
	"os"
	"path/filepath"
	"sync"
	"sync/atomic"
	"testing"
	"time"

	"github.com/B1NARY-GR0UP/originium"
	"pgregory.net/rapid"

	"verif/harness/vlib"
)

// ---- C15 gated scenarios ------------------------------------------------------
//
// The flusher is held at its first gate so that the flush queue fills up and a
// committer parks on it (holding oracle.writeLock); readers and further writers
// are started against that state; the flusher is then released in a generated
// pattern; finally Close is called while flushes are pending and the directory
// is reopened at once.

type gateCtl struct {
	dir     string
	holding atomic.Bool
	tokens  chan struct{}
	arrived atomic.Int64
}

var gate atomic.Pointer[gateCtl]

func (g *gateCtl) handle(site, dir string) {
	if dir != g.dir || site != "flusher.recv" {
		return
	}
	g.arrived.Add(1)
	for g.holding.Load() {
		select {
		case <-g.tokens:
			return
		case <-time.After(2 * time.Millisecond):
		}
	}
}

type Scenario struct {
	Cfg       Cfg   `json:"cfg"`
	Writers   int   `json:"writers"`
	Commits   int   `json:"commits_per_writer"`
	KeysPerTx int   `json:"keys_per_txn"`
	ValLen    int   `json:"value_len"`
	Readers   int   `json:"readers"`
	Late      int   `json:"late_writers"`
	Pattern   []int `json:"release_pattern"` // flusher cycles released per step before it runs free
	PendClose bool  `json:"close_with_pending_flush"`
	Misuse    int   `json:"misuse"` // 0 none, 1 Commit twice, 2 Discard then Commit, 3 both (on transactions with writes)
}

func genScenario(t *rapid.T) Scenario {
	s := Scenario{
		Cfg: Cfg{
			SkipListMaxLevel: rapid.SampledFrom([]int{1, 4, 9}).Draw(t, "slMax"),
			SkipListP:        0.5,
			MemThreshold:     rapid.SampledFrom([]int{1, 20, 60, 120, 200}).Draw(t, "mem"),
			ImmBuf:           rapid.IntRange(0, 3).Draw(t, "immBuf"),
			Block:            rapid.SampledFrom([]int{4096, 4096, 100}).Draw(t, "block"),
			L0Target:         rapid.SampledFrom([]int{1, 2, 4}).Draw(t, "l0"),
			Ratio:            rapid.SampledFrom([]int{1, 2, 10}).Draw(t, "ratio"),
		},
		Writers:   rapid.IntRange(1, 3).Draw(t, "writers"),
		Commits:   rapid.IntRange(3, 10).Draw(t, "commits"),
		KeysPerTx: rapid.IntRange(1, 3).Draw(t, "keysPerTx"),
		ValLen:    rapid.SampledFrom([]int{0, 10, 60}).Draw(t, "valLen"),
		Readers:   rapid.IntRange(1, 4).Draw(t, "readers"),
		Late:      rapid.IntRange(0, 2).Draw(t, "late"),
		PendClose: rapid.IntRange(0, 3).Draw(t, "pendClose") != 0,
		Misuse:    rapid.SampledFrom([]int{0, 0, 1, 2, 3}).Draw(t, "misuse"),
	}
	n := rapid.IntRange(0, 4).Draw(t, "npattern")
	for i := 0; i < n; i++ {
		s.Pattern = append(s.Pattern, rapid.IntRange(1, 3).Draw(t, "cycles"))
	}
	return s
}

type scenResult struct {
	problems       []problem
	parkedCommit   bool
	readersWaited  bool
	closePending   bool
	commitsDone    int64
	flusherArrived int64
}

func runScenario(s Scenario, dir string) (res scenResult) {
	_ = os.RemoveAll(dir)
	defer os.RemoveAll(dir)
	g := &gateCtl{dir: dir, tokens: make(chan struct{}, 64)}
	g.holding.Store(true)
	gate.Store(g)
	defer gate.Store(nil)
	db, err := originium.Open(dir, toConfig(s.Cfg))
	if err != nil {
		res.problems = append(res.problems, problem{"panic", "Open failed: " + err.Error()})
		return
	}
	var mu sync.Mutex
	last := map[string]string{} // key -> last acknowledged value
	var commits atomic.Int64
	var wg sync.WaitGroup
	prob := func(kind, msg string) {
		mu.Lock()
		res.problems = append(res.problems, problem{kind, msg})
		mu.Unlock()
	}
	writer := func(id, n int) {
		defer wg.Done()
		defer func() {
			if r := recover(); r != nil {
				prob("panic", fmt.Sprintf("writer %d panicked: %v", id, r))
			}
		}()
		for i := 0; i < n; i++ {
			vals := map[string]string{}
			err := db.Update(func(tx *originium.Txn) error {
				for k := 0; k < s.KeysPerTx; k++ {
					key := fmt.Sprintf("w%d-k%d", id, k)
					v := fmt.Sprintf("%d.%d.%d", id, i, k) + string(make([]byte, 0)) + pad(s.ValLen)
					vals[key] = v
					if err := tx.Set(key, []byte(v)); err != nil {
						return err
					}
				}
				return nil
			})
			if err != nil {
				prob("unexpected_error", fmt.Sprintf("blind-write Update of writer %d returned %v", id, err))
				return
			}
			progress.Add(1)
			mu.Lock()
			for k, v := range vals {
				last[k] = v
			}
			mu.Unlock()
			commits.Add(1)
		}
	}
	// documented misuse first: a finished transaction is committed again. The calls must return
	// (their error values are C08's business) and must not leave anything locked behind them.
	if s.Misuse != 0 {
		mdone := make(chan struct{})
		go func() {
			defer close(mdone)
			defer func() {
				if r := recover(); r != nil {
					prob("panic", fmt.Sprintf("misuse call panicked: %v", r))
				}
			}()
			if s.Misuse&1 != 0 {
				tx := db.Begin(true)
				_ = tx.Set("misuse-a", []byte("m1"))
				if err := tx.Commit(); err == nil {
					mu.Lock()
					last["misuse-a"] = "m1"
					mu.Unlock()
				}
				_ = tx.Commit()
			}
			if s.Misuse&2 != 0 {
				tx := db.Begin(true)
				_ = tx.Set("misuse-b", []byte("m2"))
				tx.Discard()
				_ = tx.Commit()
				tx.Discard()
			}
			// and an ordinary commit afterwards
			if err := db.Update(func(tx *originium.Txn) error { return tx.Set("misuse-c", []byte("m3")) }); err == nil {
				mu.Lock()
				last["misuse-c"] = "m3"
				mu.Unlock()
			}
		}()
		g.holding.Store(false) // these commits may rotate: the flusher must be able to take the memtable
		if verdict := await(mdone, "Commit on a finished transaction (or the commit after it) did not return"); verdict != nil {
			res.problems = append(res.problems, *verdict)
			return
		}
		originium.VerifDrain(db, 20*time.Second)
		g.holding.Store(true)
	}
	for w := 0; w < s.Writers; w++ {
		wg.Add(1)
		go writer(w, s.Commits)
	}
	// wait until the writers have stalled on the full queue (or finished)
	stalled := func(limit time.Duration) bool {
		deadline := time.Now().Add(limit)
		prev, same := commits.Load(), 0
		for time.Now().Before(deadline) {
			time.Sleep(3 * time.Millisecond)
			c := commits.Load()
			if c == prev {
				same++
				if same >= 8 {
					return true
				}
			} else {
				prev, same = c, 0
			}
		}
		return false
	}
	stalled(2 * time.Second)
	if commits.Load() < int64(s.Writers*s.Commits) {
		queued, capacity, _ := originium.VerifQueue(db)
		if queued >= capacity && g.arrived.Load() > 0 {
			res.parkedCommit = true
		}
	}
	// readers: Begin has to wait for the commit in progress
	var readersDone atomic.Int64
	for r := 0; r < s.Readers; r++ {
		wg.Add(1)
		go func(r int) {
			defer wg.Done()
			defer func() {
				if rc := recover(); rc != nil {
					prob("panic", fmt.Sprintf("reader %d panicked: %v", r, rc))
				}
			}()
			tx := db.Begin(false)
			for w := 0; w < s.Writers; w++ {
				tx.Get(fmt.Sprintf("w%d-k0", w))
			}
			tx.Discard()
			readersDone.Add(1)
		}(r)
	}
	for l := 0; l < s.Late; l++ {
		wg.Add(1)
		go writer(100+l, 2)
	}
	time.Sleep(15 * time.Millisecond)
	if res.parkedCommit && readersDone.Load() < int64(s.Readers) {
		res.readersWaited = true
	}
	// release pattern, then free
	for _, n := range s.Pattern {
		for i := 0; i < n; i++ {
			select {
			case g.tokens <- struct{}{}:
			default:
			}
		}
		time.Sleep(2 * time.Millisecond)
	}
	g.holding.Store(false)
	done := make(chan struct{})
	go func() { wg.Wait(); close(done) }()
	if verdict := await(done, "after the flusher was released, writers/readers still did not return"); verdict != nil {
		res.problems = append(res.problems, *verdict)
		return
	}
	res.commitsDone = commits.Load()
	// Close while a flush is pending: hold the flusher again, make one more memtable pending, call Close, then let go
	if s.PendClose {
		// let the flusher catch up first: holding it with a full queue would park our own commit
		originium.VerifDrain(db, 20*time.Second)
		g.holding.Store(true)
		for i := 0; i < 40; i++ {
			_, _, imm := originium.VerifQueue(db)
			if imm > 0 {
				break
			}
			_ = db.Update(func(tx *originium.Txn) error {
				v := fmt.Sprintf("p.%d", i) + pad(s.ValLen+20)
				if err := tx.Set("pend", []byte(v)); err != nil {
					return err
				}
				mu.Lock()
				last["pend"] = v
				mu.Unlock()
				return nil
			})
		}
		if _, _, imm := originium.VerifQueue(db); imm > 0 {
			res.closePending = true
		}
	}
	closed := make(chan any, 1)
	go func() {
		defer func() { closed <- recover() }()
		db.Close()
	}()
	if s.PendClose {
		time.Sleep(5 * time.Millisecond)
		g.holding.Store(false)
	}
	closedSig := make(chan struct{})
	var closePanic any
	go func() { closePanic = <-closed; close(closedSig) }()
	if verdict := await(closedSig, "Close (called with a flush pending) did not return"); verdict != nil {
		res.problems = append(res.problems, *verdict)
		return
	}
	if closePanic != nil {
		res.problems = append(res.problems, problem{"panic", fmt.Sprintf("Close panicked: %v", closePanic)})
		return
	}
	res.flusherArrived = g.arrived.Load()
	// the flusher has stopped: the directory does not change any more
	l1 := listDir(dir)
	time.Sleep(30 * time.Millisecond)
	l2 := listDir(dir)
	if l1 != l2 {
		res.problems = append(res.problems, problem{"reopen", fmt.Sprintf("the directory still changed after Close returned: %q -> %q", l1, l2)})
		return
	}
	originium.VerifStopOracle(db)
	db2, err := originium.Open(dir, toConfig(s.Cfg))
	if err != nil {
		res.problems = append(res.problems, problem{"reopen", "Open right after Close failed: " + err.Error()})
		return
	}
	_ = db2.View(func(tx *originium.Txn) error {
		for k, want := range last {
			v, ok := tx.Get(k)
			if !ok || string(v) != want {
				res.problems = append(res.problems, problem{"reopen_state", fmt.Sprintf("after Close and an immediate reopen key %q reads (%q,%v), last acknowledged value %q", k, v, ok, want)})
				break
			}
		}
		return nil
	})
	originium.VerifAbandon(db2)
	return
}

// progress is bumped by every workload of this package whenever a call of the engine returned
// (a commit, a refusal, a read-only transaction); await uses it to tell slow from stuck.
var progress atomic.Int64

// await waits for done. Every 20 s it takes a goroutine dump: a dump in which nothing of the
// engine or the workload can run is a deadlock. As long as calls keep returning it keeps
// waiting (a loaded machine is not a finding); after 3 minutes without a single returned call
// while goroutines are runnable - or 40 minutes in all - it gives up (inconclusive, never a
// violation).
// confirmedDeadlock: a single dump in which nothing can run is not enough - library goroutines
// (the s2 reader and writer run pipelines of their own) can make a healthy engine look parked
// for an instant. The verdict needs three dumps over ten seconds that all say so, with not a
// single call of the engine returning in between.
func confirmedDeadlock() (string, bool) {
	dump := goroutineDump()
	if !deadlocked(dump) {
		return "", false
	}
	p0 := progress.Load()
	for i := 0; i < 2; i++ {
		time.Sleep(5 * time.Second)
		dump = goroutineDump()
		if !deadlocked(dump) || progress.Load() != p0 {
			return "", false
		}
	}
	if f := os.Getenv("VERIF_FULL_DUMP"); f != "" {
		_ = os.WriteFile(f, []byte(dump), 0o644)
	}
	return dump, true
}

func await(done <-chan struct{}, what string) *problem {
	last, idle := progress.Load(), 0
	for i := 0; i < 120 && idle < 9; i++ {
		select {
		case <-done:
			return nil
		case <-time.After(20 * time.Second):
			if dump, ok := confirmedDeadlock(); ok {
				return &problem{"deadlock", what + " and nothing can run:\n" + trimDump(dump)}
			}
			if now := progress.Load(); now != last {
				last, idle = now, 0
			} else {
				idle++
			}
		}
	}
	return &problem{"inconclusive_slow", what + " (no call returned for 3 minutes, or 40 minutes passed) but goroutines are runnable"}
}

func pad(n int) string {
	b := make([]byte, n)
	for i := range b {
		b[i] = 'x'
	}
	return string(b)
}

func TestC15(t *testing.T) {
	rec := vlib.For("C15", "TestC15")
	dir := filepath.Join(scratch(t), "db15")
	one := func(s Scenario, cj []byte, fatal func(string, ...any)) {
		rec.Begin(cj)
		res := runScenario(s, dir)
		var classes []string
		if res.parkedCommit {
			classes = append(classes, "committer_parked_on_full_queue")
		}
		if res.readersWaited {
			classes = append(classes, "reader_waited_in_begin")
		}
		if res.closePending {
			classes = append(classes, "close_with_flush_pending")
		}
		if s.Cfg.ImmBuf == 0 {
			classes = append(classes, "queue_length_zero")
		}
		var mine *problem
		for i := range res.problems {
			p := res.problems[i]
			if owns["C15"][p.kind] || p.kind == "unexpected_error" {
				if mine == nil {
					mine = &res.problems[i]
				}
			} else {
				rec.Count(p.kind, 1)
			}
		}
		rec.End(cj, mine == nil && res.parkedCommit && res.readersWaited && (res.closePending || !s.PendClose), classes...)
		if mine != nil {
			rec.Violation(mine.kind, mine.msg, cj, nil)
			if mine.kind == "deadlock" {
				// the stuck goroutines never go away: no further case can run in this process
				vlib.FlushAll(false)
				fmt.Fprintf(os.Stderr, "%s: %s\n", mine.kind, mine.msg)
				os.Exit(1)
			}
			fatal("%s: %s", mine.kind, mine.msg)
		}
		for _, p := range res.problems {
			if p.kind == "inconclusive_slow" {
				rec.Note("a scenario was abandoned with live goroutines (inconclusive); the shard stops here")
				vlib.FlushAll(false)
				os.Exit(3)
			}
		}
	}
	if rc := vlib.ReplayCase(); rc != nil {
		var s Scenario
		if err := json.Unmarshal(rc, &s); err != nil {
			t.Fatalf("bad replay case: %v", err)
		}
		for i := 0; i < 20; i++ {
			one(s, rc, t.Fatalf)
		}
		return
	}
	rapid.Check(t, func(rt *rapid.T) {
		s := rapid.Custom(genScenario).Draw(rt, "scenario")
		one(s, vlib.JSON(s), rt.Fatalf)
	})
}
