//go:build verif

// Package dbsm is engine E1: a deterministic state machine over one real DB.
// A whole Program is drawn from rapid, then interpreted against the real
// engine and the MVCC+SSI reference model side by side; the background
// flusher is held at gates and advanced only by generated ops.
package dbsm

import (
	"fmt"
	"strings"

	"pgregory.net/rapid"

	"verif/harness/vlib"
)

type Cfg struct {
	SkipListMaxLevel int     `json:"sl_max_level"`
	SkipListP        float64 `json:"sl_p"`
	MemThreshold     int     `json:"mem_threshold"`
	ImmBuf           int     `json:"imm_buffer"`
	Block            int     `json:"block"`
	L0Target         int     `json:"l0_target"`
	Ratio            int     `json:"ratio"`
}

// UpOp is one call inside an Update/View closure.
type UpOp struct {
	Op   string `json:"op"` // get set del
	K    int    `json:"k"`
	VLen int    `json:"vlen,omitempty"` // -1: empty value
	Via  int    `json:"via,omitempty"`  // 0: Set/Delete; 1: SetEntry with a bogus Version; 2 (del): SetEntry{Tombstone:true} carrying a value
}

type Op struct {
	Op        string `json:"op"`
	T         int    `json:"t,omitempty"`  // transaction selector: index modulo the number of open transactions
	RW        bool   `json:"rw,omitempty"` // begin
	K         int    `json:"k,omitempty"`  // key index
	VLen      int    `json:"vlen,omitempty"`
	Via       int    `json:"via,omitempty"`        // set/del: 0 Set/Delete, 1/2 through SetEntry (see UpOp)
	N         int    `json:"n,omitempty"`          // fstep: number of gates to pass
	Cfg       *Cfg   `json:"cfg,omitempty"`        // reopen: configuration of the next run
	Ups       []UpOp `json:"ups,omitempty"`        // update / view closure body
	FailAfter int    `json:"fail_after,omitempty"` // update: closure returns an error after that many calls (0 = does not fail; k>0 = after k calls)
	Mis       string `json:"mis,omitempty"`        // misuse kind
}

type Program struct {
	Cfg      Cfg        `json:"cfg"`
	Keys     []vlib.Str `json:"keys"`
	Seed     int64      `json:"seed"` // tower heights of the memtables
	Pad      vlib.Str   `json:"pad"`  // byte the value tokens are padded with (values are not only ASCII)
	Big      bool       `json:"multi_mib_tables,omitempty"`
	Many     bool       `json:"many_tables,omitempty"`
	Long     bool       `json:"long_lived_txn_mode,omitempty"`
	Free     bool       `json:"free"` // flusher runs free (no gates)
	AutoRead bool       `json:"auto_read"`
	Ops      []Op       `json:"ops"`
}

// Profile weights the generator towards one property's non-trivial region.
type Profile struct {
	Name       string
	MaxOps     int
	Reopen     int // weight of reopen ops
	Txn        int // weight of explicit Begin/Get/Set/Commit interleavings
	Closure    int // weight of Update/View closures
	Flusher    int // weight of flusher steps
	Misuse     int
	Abandon    int // weight of discard / failing closures
	Free       bool
	SmallMem   bool // thresholds small enough that flushes and compactions are frequent
	MaxOpenTxn int
	Templates  bool // embed anomaly templates (write skew, lost update, read-only anomaly)
}

func genCfg(t *rapid.T, small bool) Cfg {
	c := Cfg{
		SkipListMaxLevel: rapid.SampledFrom([]int{0, 1, 2, 4, 9, 12, 33}).Draw(t, "slMax"),
		SkipListP:        rapid.SampledFrom([]float64{0, 0.1, 0.25, 0.5, 0.75, 0.9, 0.99, 1}).Draw(t, "slP"),
		ImmBuf:           rapid.SampledFrom([]int{0, 0, 1, 1, 2, 4, 10}).Draw(t, "immBuf"),
		Block:            rapid.SampledFrom([]int{0, 1, 1, 20, 60, 200, 4096}).Draw(t, "block"),
		L0Target:         rapid.SampledFrom([]int{1, 1, 2, 2, 3, 4, 5, 0}).Draw(t, "l0"),
		Ratio:            rapid.SampledFrom([]int{1, 1, 2, 3, 10, 0}).Draw(t, "ratio"),
	}
	if small {
		c.MemThreshold = rapid.SampledFrom([]int{1, 30, 60, 100, 150, 250, 400, 700}).Draw(t, "mem")
	} else {
		c.MemThreshold = rapid.SampledFrom([]int{0, 1, 60, 150, 300, 700, 2000}).Draw(t, "mem")
	}
	return c
}

// regen keeps the level geometry (fixed for a directory, property C02) and redraws the rest.
func regenCfg(t *rapid.T, old Cfg, small bool) Cfg {
	c := genCfg(t, small)
	c.L0Target, c.Ratio = old.L0Target, old.Ratio
	return c
}

func genUps(t *rapid.T, nkeys, maxN int, withGets bool) []UpOp {
	n := rapid.IntRange(1, maxN).Draw(t, "nups")
	ups := make([]UpOp, n)
	for i := range ups {
		kinds := []string{"set", "set", "set", "del"}
		if withGets {
			kinds = append(kinds, "get", "get")
		}
		ups[i] = UpOp{Op: rapid.SampledFrom(kinds).Draw(t, "upop"), K: rapid.IntRange(0, nkeys-1).Draw(t, "k"), Via: rapid.SampledFrom([]int{0, 0, 0, 1, 2}).Draw(t, "via")}
		if ups[i].Op == "set" {
			ups[i].VLen = genVLen(t)
		}
	}
	return ups
}

func genVLen(t *rapid.T) int {
	if rapid.IntRange(0, 149).Draw(t, "hugeValue") == 0 {
		// rarely a value far above every block / buffer size (one data block of > 64 KiB)
		return rapid.SampledFrom([]int{5000, 70000, 140000}).Draw(t, "hugeLen")
	}
	return rapid.SampledFrom([]int{-1, 0, 0, 0, 5, 20, 60, 150, 300}).Draw(t, "vlen")
}

var misuseKinds = []string{"set_finished", "del_finished", "commit_finished", "get_finished", "discard_finished",
	"set_empty_key", "del_empty_key", "get_empty_key", "set_readonly", "del_readonly", "commit_readonly"}

func genProgram(t *rapid.T, pf Profile) Program {
	p := Program{Cfg: genCfg(t, pf.SmallMem), Seed: rapid.Int64().Draw(t, "seed"), Free: pf.Free, AutoRead: pf.Name == "C01" || pf.Name == "C02"}
	p.Pad = vlib.Str(rapid.SampledFrom([]string{"x", "x", "x", "\x00", "\xff", "@", "\n", "\x80", "rand", "rand"}).Draw(t, "pad"))
	nk := rapid.IntRange(3, 10).Draw(t, "nkeys")
	seen := map[string]bool{}
	for len(p.Keys) < nk {
		var k string
		if fk := rapid.IntRange(0, 59).Draw(t, "freshKey"); fk == 59 {
			// a key longer than every 16-bit length field and every block
			k = strings.Repeat(rapid.SampledFrom([]string{"K", "\xfe", "k@"}).Draw(t, "longKeyPat"), rapid.SampledFrom([]int{1000, 40000, 70000}).Draw(t, "longKeyLen"))
		} else if fk < 10 {
			k = string(rapid.SliceOfN(rapid.Byte(), 1, 12).Draw(t, "rawkey"))
		} else {
			k = rapid.SampledFrom(vlib.Pool).Draw(t, "poolkey")
		}
		if k != "" && !seen[k] {
			seen[k] = true
			p.Keys = append(p.Keys, vlib.Str(k))
			if sib, ok := vlib.Sibling[k]; ok && !seen[sib] && len(p.Keys) < nk && rapid.Bool().Draw(t, "sibling") {
				seen[sib] = true
				p.Keys = append(p.Keys, vlib.Str(sib))
			}
		}
	}
	type w struct {
		op string
		n  int
	}
	ws := []w{
		{"update", pf.Closure * 3}, {"view", pf.Closure},
		{"begin", pf.Txn * 2}, {"get", pf.Txn * 3}, {"set", pf.Txn * 3}, {"del", pf.Txn}, {"commit", pf.Txn * 2}, {"reread", pf.Txn},
		{"discard", pf.Abandon}, {"update_fail", pf.Abandon}, {"burst", (pf.Txn + 2) / 3},
		{"fstep", pf.Flusher * 2}, {"fidle", pf.Flusher},
		{"reopen", pf.Reopen}, {"misuse", pf.Misuse}, {"checkall", 1},
	}
	var kinds []string
	for _, x := range ws {
		for i := 0; i < x.n; i++ {
			kinds = append(kinds, x.op)
		}
	}
	n := rapid.IntRange(10, pf.MaxOps).Draw(t, "nops")
	cur := p.Cfg
	mode := rapid.IntRange(0, 399).Draw(t, "rareMode")
	if (pf.Name == "C01" || pf.Name == "C02") && mode == 399 {
		mode = 211 // the two properties about data at rest see the many-tables mode more often (1 in 200)
	}
	if mode == 211 && pf.Name != "C07" {
		// many tables: 150 keys written one per commit with a 1-byte memtable threshold, so that
		// levels hold dozens to hundreds of single-key tables (three-digit table indices)
		p.Keys = nil
		for i := 0; i < 150; i++ {
			p.Keys = append(p.Keys, vlib.Str(fmt.Sprintf("t%03d", i)))
		}
		nk = len(p.Keys)
		// ratio 10: wide levels (two- and three-digit table numbers); ratio 1 or 2 with disjoint
		// single-key tables: a deep tree (two-digit level numbers)
		p.Cfg.MemThreshold, p.Cfg.L0Target, p.Cfg.Ratio, p.Cfg.Block, p.Cfg.ImmBuf = 1, rapid.SampledFrom([]int{1, 2, 5}).Draw(t, "mtL0"), rapid.SampledFrom([]int{10, 10, 1, 2}).Draw(t, "mtRatio"), 4096, 4
		cur = p.Cfg
		p.Many = true
		perm := rapid.Permutation(seqInts(150)).Draw(t, "mtOrder")
		rounds := rapid.IntRange(1, 2).Draw(t, "mtRounds")
		for r := 0; r < rounds; r++ {
			for _, k := range perm {
				p.Ops = append(p.Ops, Op{Op: "update", Ups: []UpOp{{Op: "set", K: k, VLen: 0}}})
			}
			p.Ops = append(p.Ops, Op{Op: "fidle"}, Op{Op: "checkall"})
			if pf.Reopen > 0 {
				c := cur
				p.Ops = append(p.Ops, Op{Op: "reopen", Cfg: &c}, Op{Op: "checkall"})
			}
		}
		n = rapid.IntRange(3, 10).Draw(t, "nopsAfterMany")
	} else if mode == 97 && rapid.Bool().Draw(t, "marathonCoin") {
		// marathon: tens of thousands of small commits (timestamps, counters and lists far beyond 2^16)
		// defaults: the marathon is about counters and lists, not about flush or tower cost (a
		// two-level skiplist or 200-byte blocks would make 70 000 entries quadratic)
		p.Cfg.MemThreshold, p.Cfg.SkipListMaxLevel, p.Cfg.SkipListP, p.Cfg.Block = 0, 12, 0.5, 4096
		// ... and short keys of its own: 70 000 commits on a 70 KB key would be a gigabyte of wal
		p.Keys = nil
		for i := 0; i < 6; i++ {
			p.Keys = append(p.Keys, vlib.Str(fmt.Sprintf("m%d", i)))
		}
		nk = len(p.Keys)
		cur = p.Cfg
		p.Ops = append(p.Ops, Op{Op: "begin", RW: true}, Op{Op: "get", T: 0, K: 0})
		p.Ops = append(p.Ops, Op{Op: "marathon", N: rapid.SampledFrom([]int{300, 70000}).Draw(t, "maraN")})
		p.Ops = append(p.Ops, Op{Op: "checkall"})
		n = rapid.IntRange(5, 30).Draw(t, "nopsAfterMarathon")
	}
	if pf.Templates && mode >= 300 && mode < 306 && !p.Many {
		// long-lived-transaction mode: anomaly patterns in the shadow of a transaction that stays
		// open during hundreds or thousands of commits. Sizes that make every commit cheap (no
		// rotation, ordinary towers and blocks): this mode is about the oracle's bookkeeping.
		p.Cfg.MemThreshold, p.Cfg.SkipListMaxLevel, p.Cfg.SkipListP, p.Cfg.Block = 0, 12, 0.5, 4096
		p.Keys = nil
		for i := 0; i < 8; i++ {
			p.Keys = append(p.Keys, vlib.Str(fmt.Sprintf("l%d", i)))
		}
		nk = len(p.Keys)
		cur = p.Cfg
		p.Long = true
		n = rapid.IntRange(10, 40).Draw(t, "nopsLong")
	}
	if (pf.Name == "C01" || pf.Name == "C02") && rapid.IntRange(0, 79).Draw(t, "bigTables") == 41 {
		// size class: ~100 commits of 64 KiB values with the default (4 MiB) memtable threshold,
		// i.e. tables whose data region is several MiB, then flusher work / reopen cycles
		p.Big = true
		p.Cfg.MemThreshold = rapid.SampledFrom([]int{0, 0, 64 << 20}).Draw(t, "bigMem")
		p.Cfg.Block = rapid.SampledFrom([]int{0, 4096, 1 << 20}).Draw(t, "bigBlock")
		cur = p.Cfg
		nbig := rapid.IntRange(70, 110).Draw(t, "nbig")
		for i := 0; i < nbig; i++ {
			// no reopen in between: a memtable keeps every version, so the table it is flushed to
			// really holds several MiB (a compaction would discard the shadowed versions again)
			p.Ops = append(p.Ops, Op{Op: "update", Ups: []UpOp{{Op: "set", K: rapid.IntRange(0, nk-1).Draw(t, "k"), VLen: 65536}}})
		}
		p.Ops = append(p.Ops, Op{Op: "fidle"}, Op{Op: "checkall"})
		if pf.Reopen > 0 {
			c := cur
			p.Ops = append(p.Ops, Op{Op: "reopen", Cfg: &c}, Op{Op: "checkall"})
		}
		n = rapid.IntRange(3, 12).Draw(t, "nopsAfterBig")
	}
	for i := 0; i < n; i++ {
		kind := rapid.SampledFrom(kinds).Draw(t, "op")
		if pf.Templates && (rapid.IntRange(0, 14).Draw(t, "tmpl") == 0 || (p.Long && i%3 == 0)) {
			p.Ops = append(p.Ops, genTemplate(t, nk, p.Long && i%3 == 0)...)
			continue
		}
		o := Op{Op: kind}
		switch kind {
		case "update":
			o.Ups = genUps(t, nk, 5, true)
		case "update_fail":
			o.Op = "update"
			o.Ups = genUps(t, nk, 5, true)
			o.FailAfter = rapid.IntRange(1, len(o.Ups)).Draw(t, "failAfter")
		case "view":
			o.Ups = genUps(t, nk, 4, true)
			for j := range o.Ups {
				o.Ups[j].Op = "get"
			}
		case "begin":
			o.RW = rapid.IntRange(0, 3).Draw(t, "rw") != 0
		case "get", "del", "reread", "commit", "discard":
			o.T = rapid.IntRange(0, 7).Draw(t, "t")
			o.K = rapid.IntRange(0, nk-1).Draw(t, "k")
		case "set":
			o.T = rapid.IntRange(0, 7).Draw(t, "t")
			o.K = rapid.IntRange(0, nk-1).Draw(t, "k")
			o.VLen = genVLen(t)
			o.Via = rapid.SampledFrom([]int{0, 0, 0, 1}).Draw(t, "via")
		case "burst":
			// many small commits in a row while whatever is open stays open: drives the
			// committed-transaction list through its clean-up with old readers pending
			o.N = rapid.IntRange(5, 35).Draw(t, "burstN")
			o.K = rapid.IntRange(0, nk-1).Draw(t, "k")
		case "fstep":
			o.N = rapid.IntRange(1, 4).Draw(t, "n")
		case "reopen":
			if rapid.IntRange(0, 2).Draw(t, "sameCfg") == 0 || p.Long {
				c := cur
				o.Cfg = &c
			} else {
				c := regenCfg(t, cur, pf.SmallMem)
				o.Cfg = &c
				cur = c
			}
		case "misuse":
			o.Mis = rapid.SampledFrom(misuseKinds).Draw(t, "mis")
			o.T = rapid.IntRange(0, 7).Draw(t, "t")
			o.K = rapid.IntRange(0, nk-1).Draw(t, "k")
		}
		p.Ops = append(p.Ops, o)
	}
	// values of 64 KiB and more are decoded byte by byte through reflection by the engine
	// (binary.Read into *[]byte); together with a compaction after every commit that is
	// minutes per program. Keep at most three of them, and none when every commit rotates.
	if !p.Big {
		huge := 0
		clamp := func(v *int) {
			if *v > 5000 {
				huge++
				if huge > 3 || p.Cfg.MemThreshold == 1 {
					*v = 300
				}
			}
		}
		for i := range p.Ops {
			clamp(&p.Ops[i].VLen)
			for j := range p.Ops[i].Ups {
				clamp(&p.Ops[i].Ups[j].VLen)
			}
		}
	}
	return p
}

// genTemplate embeds a classic anomaly pattern with a generated interleaving.
// If the engine is serializable one of the participants is refused (or the
// result is serial); the oracles decide, the template only raises the odds
// that overlapping read/write sets meet.
func genTemplate(t *rapid.T, nk int, long bool) []Op {
	x := rapid.IntRange(0, nk-1).Draw(t, "tx")
	y := rapid.IntRange(0, nk-1).Draw(t, "ty")
	var a, b []Op // steps of transaction A (selector relative, see below) and B
	switch rapid.SampledFrom([]string{"write_skew", "lost_update", "read_only_anomaly"}).Draw(t, "template") {
	case "write_skew":
		a = []Op{{Op: "get", K: x}, {Op: "get", K: y}, {Op: "set", K: x, VLen: 0}, {Op: "commit"}}
		b = []Op{{Op: "get", K: x}, {Op: "get", K: y}, {Op: "set", K: y, VLen: 0}, {Op: "commit"}}
	case "lost_update":
		a = []Op{{Op: "get", K: x}, {Op: "set", K: x, VLen: 0}, {Op: "commit"}}
		b = []Op{{Op: "get", K: x}, {Op: "set", K: x, VLen: 5}, {Op: "commit"}}
	default:
		// Fekete et al.: T1 reads x,y writes y; T2 writes x; a reader in between
		a = []Op{{Op: "get", K: x}, {Op: "get", K: y}, {Op: "set", K: y, VLen: 0}, {Op: "commit"}}
		b = []Op{{Op: "set", K: x, VLen: 0}, {Op: "commit"}, {Op: "tmpl_view", K: x, N: y}}
	}
	// "tbegin" opens two fresh read-write transactions; their steps refer to them as
	// T = -1 (first) and T = -2 (second), resolved by the interpreter.
	var out, c []Op
	if long {
		// the pattern runs in the shadow of a long-lived transaction (T = -3) that was
		// open during hundreds or thousands of commits, and that ends - followed by one more commit,
		// i.e. one more clean-up of the oracle's bookkeeping - somewhere in the middle of the pattern
		out = append(out, Op{Op: "lbegin", RW: rapid.Bool().Draw(t, "longRW")}, Op{Op: "get", T: -3, K: y},
			Op{Op: "burst", N: rapid.SampledFrom([]int{40, 300, 900, 1400, 2700}).Draw(t, "longBurst"), K: rapid.IntRange(0, nk-1).Draw(t, "longK")})
		c = []Op{{Op: "discard", T: -3}, {Op: "settle"}, {Op: "update", Ups: []UpOp{{Op: "set", K: rapid.IntRange(0, nk-1).Draw(t, "longK2"), VLen: 0}}}, {Op: "settle"}}
	}
	out = append(out, Op{Op: "tbegin"})
	ia, ib, ic := 0, 0, 0
	for ia < len(a) || ib < len(b) || ic < len(c) {
		var live []int
		if ia < len(a) {
			live = append(live, 0)
		}
		if ib < len(b) {
			live = append(live, 1)
		}
		if ic < len(c) {
			live = append(live, 2)
		}
		which := live[0]
		if len(live) > 1 {
			which = live[rapid.IntRange(0, len(live)-1).Draw(t, "interleave")]
		}
		switch which {
		case 0:
			o := a[ia]
			o.T = -1
			out = append(out, o)
			ia++
		case 1:
			o := b[ib]
			if o.Op != "tmpl_view" {
				o.T = -2
			}
			out = append(out, o)
			ib++
		default:
			out = append(out, c[ic])
			ic++
		}
	}
	return out
}

func seqInts(n int) []int {
	out := make([]int, n)
	for i := range out {
		out[i] = i
	}
	return out
}

func (p Program) String() string {
	return fmt.Sprintf("program(%d keys, %d ops)", len(p.Keys), len(p.Ops))
}
