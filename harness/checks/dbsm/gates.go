//go:build verif

package dbsm

import (
	"fmt"
	"sync"
	"sync/atomic"
	"time"

	"github.com/B1NARY-GR0UP/originium"
	"github.com/B1NARY-GR0UP/originium/pkg/verifhook"
)

// Gates holds the background flusher of ONE DB at the four lock-free stages of
// its loop and lets the foreground goroutine single-step it. It only steers:
// no verdict depends on it.
type Gates struct {
	dir  string
	db   *originium.DB
	free atomic.Bool // gates open: handlers never block

	// everything below is touched by the foreground goroutine only, except
	// arrive/release which synchronise with the flusher goroutine
	held    bool
	site    string
	arrive  chan string
	release chan struct{}
	sent    int // memtables handed to the flush queue (counted just before the send)
	recvd   int // memtables the flusher has received

	seed      uint64
	Rotations int
	Flushes   int // flusher.flushed gates passed
	Cycles    int // complete flush+compact cycles
	Stuck     bool
	trace     []string
	mu        sync.Mutex // protects trace (written from both goroutines)
}

var current atomic.Pointer[Gates]

func init() {
	verifhook.SetHandler(func(site, dir string) {
		g := current.Load()
		if g == nil || g.dir != dir {
			return
		}
		g.handle(site)
	})
}

func newGates(dir string, seed int64, free bool) *Gates {
	g := &Gates{dir: dir, arrive: make(chan string, 1), release: make(chan struct{}), seed: uint64(seed)*2654435761 + 1}
	g.free.Store(free)
	return g
}

func (g *Gates) attach(db *originium.DB) {
	g.db = db
	current.Store(g)
	originium.VerifSeedMemtable(db, g.nextSeed())
}

func (g *Gates) detach() { current.Store(nil) }

func (g *Gates) nextSeed() int64 {
	g.seed = g.seed*6364136223846793005 + 1442695040888963407
	return int64(g.seed >> 1)
}

func (g *Gates) log(s string) {
	g.mu.Lock()
	if len(g.trace) < 400 {
		g.trace = append(g.trace, s)
	}
	g.mu.Unlock()
}

const gateWait = 30 * time.Second

// handle runs in the goroutine that reached the Point.
func (g *Gates) handle(site string) {
	if site == "rotate.send" {
		// foreground goroutine, inside Commit (holds only oracle.writeLock)
		g.Rotations++
		if g.db != nil {
			originium.VerifSeedMemtable(g.db, g.nextSeed())
		}
		g.log("rotate")
		if g.free.Load() || g.Stuck {
			g.sent++
			return
		}
		g.settle()
		if g.held && g.db != nil {
			queued, capacity, _ := originium.VerifQueue(g.db)
			if queued >= capacity {
				// the send would block for ever with the flusher held: let it finish its
				// current cycle; it then takes the next queued memtable (freeing a slot) or idles
				for g.held && g.site != "flusher.removed" {
					g.stepOne()
				}
				if g.held {
					g.stepOne()
				}
			}
		}
		g.sent++
		return
	}
	// flusher goroutine
	if site == "flusher.flushed" {
		g.mu.Lock()
		g.Flushes++
		g.mu.Unlock()
	}
	if g.free.Load() {
		if site == "flusher.recv" {
			// keep the counters meaningful for settle() after a switch to free mode
		}
		return
	}
	g.arrive <- site
	<-g.release
}

// settle waits until the flusher is either held at a gate or idle.
func (g *Gates) settle() {
	if g.held || g.free.Load() || g.Stuck {
		return
	}
	if g.sent > g.recvd {
		g.waitArrive()
	}
}

func (g *Gates) waitArrive() {
	select {
	case s := <-g.arrive:
		g.held, g.site = true, s
		if s == "flusher.recv" {
			g.recvd++
		}
		if s == "flusher.removed" {
			g.Cycles++
		}
		g.log("at " + s)
	case <-time.After(gateWait):
		// the flusher did not reach its next stage: stop steering (verdicts stay sound)
		g.Stuck = true
		g.free.Store(true)
		g.log("STUCK: flusher did not reach the next gate")
	}
}

// stepOne lets the flusher pass the gate it is held at and waits for it to settle again.
func (g *Gates) stepOne() {
	if !g.held {
		return
	}
	was := g.site
	g.held = false
	g.release <- struct{}{}
	if was == "flusher.removed" {
		// back in the select: it receives again only if something is queued
		if g.sent > g.recvd {
			g.waitArrive()
		}
		return
	}
	g.waitArrive()
}

// Step passes up to n gates.
func (g *Gates) Step(n int) {
	g.settle()
	for i := 0; i < n && g.held; i++ {
		g.stepOne()
	}
}

// RunToIdle lets the flusher finish everything that is queued.
func (g *Gates) RunToIdle() {
	if g.free.Load() {
		if g.db != nil {
			originium.VerifDrain(g.db, 20*time.Second)
		}
		return
	}
	g.settle()
	for g.held {
		g.stepOne()
	}
}

// Open releases the flusher for good (needed before Close, whose handshake
// needs the run loop to be in its select).
func (g *Gates) Open() {
	if g.free.Load() {
		return
	}
	g.settle()
	g.free.Store(true)
	if g.held {
		g.held = false
		g.release <- struct{}{}
	}
}

// FlushCount is the number of memtables flushed by the background loop of this DB instance.
func (g *Gates) FlushCount() int {
	g.mu.Lock()
	defer g.mu.Unlock()
	return g.Flushes
}

func (g *Gates) Pending() int { return g.sent - g.recvd }

func (g *Gates) Trace() string {
	g.mu.Lock()
	defer g.mu.Unlock()
	return fmt.Sprint(g.trace)
}
