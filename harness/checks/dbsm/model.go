//go:build verif

package dbsm

// M1: the MVCC + SSI reference model (DESIGN.md §6). Exact in this engine
// because one goroutine issues every call, so "Commit returned before Begin
// was called" is program order.

type mval struct {
	val string
	del bool
	txn int // transaction number that wrote it (0: none)
}

type Model struct {
	commits []map[int]mval // write sets in commit order, by key index
}

func (m *Model) at(k, snap int) (mval, bool) {
	for i := snap - 1; i >= 0; i-- {
		if v, ok := m.commits[i][k]; ok {
			return v, true
		}
	}
	return mval{}, false
}

// latest committed state of key k.
func (m *Model) latest(k int) (mval, bool) { return m.at(k, len(m.commits)) }

type MTxn struct {
	no         int // transaction number (1-based, in begin order)
	rw         bool
	snap       int
	buffer     map[int]mval
	order      []int // buffer keys in first-write order
	storeReads map[int]bool
	finished   bool
	abandoned  bool // finished without a successful commit of a non-empty buffer
	nsets      int
}

func (m *Model) begin(no int, rw bool) *MTxn {
	return &MTxn{no: no, rw: rw, snap: len(m.commits), buffer: map[int]mval{}, storeReads: map[int]bool{}}
}

// get predicts Get on a live transaction and records the store read.
func (m *Model) get(t *MTxn, k int) (mval, bool) {
	if t.rw {
		if v, ok := t.buffer[k]; ok {
			if v.del {
				return mval{}, false
			}
			return v, true
		}
		t.storeReads[k] = true
	}
	v, ok := m.at(k, t.snap)
	if !ok || v.del {
		return mval{}, false
	}
	return v, true
}

// conflict predicts whether Commit must be refused.
func (m *Model) conflict(t *MTxn) bool {
	if !t.rw || len(t.buffer) == 0 {
		return false
	}
	for j := t.snap; j < len(m.commits); j++ {
		for k := range m.commits[j] {
			if t.storeReads[k] {
				return true
			}
		}
	}
	return false
}

func (m *Model) apply(t *MTxn) {
	ws := map[int]mval{}
	for k, v := range t.buffer {
		ws[k] = v
	}
	m.commits = append(m.commits, ws)
}
