//go:build verif

package dbsm

import "sort"

// M1: the MVCC + SSI reference model (DESIGN.md §6). Exact in this engine
// because one goroutine issues every call, so "Commit returned before Begin
// was called" is program order.

type mval struct {
	val string
	del bool
	txn int // transaction number that wrote it (0: none)
}

type Model struct {
	commits []map[int]mval // write sets in commit order, by key index
	byKey   map[int][]int  // key -> indices of the commits that wrote it (ascending)
}

// at: value of k in commits[0..snap).
func (m *Model) at(k, snap int) (mval, bool) {
	idx := m.byKey[k]
	// last index < snap
	i := sort.SearchInts(idx, snap) - 1
	if i < 0 {
		return mval{}, false
	}
	return m.commits[idx[i]][k], true
}

// latest committed state of key k.
func (m *Model) latest(k int) (mval, bool) { return m.at(k, len(m.commits)) }

type MTxn struct {
	no         int // transaction number (1-based, in begin order)
	rw         bool
	snap       int
	buffer     map[int]mval
	order      []int // buffer keys in first-write order
	storeReads map[int]bool
	finished   bool
	abandoned  bool // finished without a successful commit of a non-empty buffer
	nsets      int
}

func (m *Model) begin(no int, rw bool) *MTxn {
	return &MTxn{no: no, rw: rw, snap: len(m.commits), buffer: map[int]mval{}, storeReads: map[int]bool{}}
}

// get predicts Get on a live transaction and records the store read.
func (m *Model) get(t *MTxn, k int) (mval, bool) {
	if t.rw {
		if v, ok := t.buffer[k]; ok {
			if v.del {
				return mval{}, false
			}
			return v, true
		}
		t.storeReads[k] = true
	}
	v, ok := m.at(k, t.snap)
	if !ok || v.del {
		return mval{}, false
	}
	return v, true
}

// conflict predicts whether Commit must be refused.
func (m *Model) conflict(t *MTxn) bool {
	if !t.rw || len(t.buffer) == 0 {
		return false
	}
	for k := range t.storeReads {
		idx := m.byKey[k]
		if n := len(idx); n > 0 && idx[n-1] >= t.snap {
			return true
		}
	}
	return false
}

func (m *Model) apply(t *MTxn) {
	ws := map[int]mval{}
	for k, v := range t.buffer {
		ws[k] = v
	}
	m.commits = append(m.commits, ws)
	if m.byKey == nil {
		m.byKey = map[int][]int{}
	}
	for k := range ws {
		m.byKey[k] = append(m.byKey[k], len(m.commits)-1)
	}
}
