//go:build verif

package dbsm

import (
	"encoding/json"
	"fmt"
	"os"
	"sort"
	"strings"
	"testing"
	"time"

	"pgregory.net/rapid"

	"verif/harness/vlib"
	"verif/harness/vlib/hist"
)

func TestMain(m *testing.M) { os.Exit(vlib.Main(m)) }

// which discrepancy kinds each property owns (a check only judges its own property)
var owns = map[string]map[string]bool{
	"C01": {"fresh_read": true, "invented_value": true},
	"C02": {"reopen_diff": true, "post_reopen_read": true, "open_failed": true, "close_panic": true},
	"C05": {"fresh_read": true, "snapshot_read": true, "dirty_read": true, "invented_value": true},
	"C06": {"not_serializable": true, "dirty_read": true},
	"C07": {"commit_result": true, "refused_visible": true},
	"C08": {"abandoned_visible": true, "refused_visible": true, "misuse_result": true, "update_result": true},
}

// kinds every E1 check reports (the engine fell over while this property's workload ran)
var ownedByAll = map[string]bool{"panic": true, "write_rejected": true, "view_error": true}

var profiles = map[string]Profile{
	"C01": {Name: "C01", MaxOps: 110, Closure: 8, Txn: 1, Flusher: 4, SmallMem: true},
	"C02": {Name: "C02", MaxOps: 100, Closure: 8, Txn: 1, Flusher: 3, Reopen: 3, SmallMem: true},
	"C05": {Name: "C05", MaxOps: 120, Closure: 3, Txn: 5, Flusher: 4, Abandon: 1, SmallMem: true},
	"C06": {Name: "C06", MaxOps: 100, Closure: 2, Txn: 6, Flusher: 2, Abandon: 1, SmallMem: true, Templates: true},
	"C07": {Name: "C07", MaxOps: 120, Closure: 2, Txn: 7, Flusher: 1, Abandon: 1, Templates: true},
	"C08": {Name: "C08", MaxOps: 110, Closure: 4, Txn: 4, Flusher: 3, Reopen: 2, Misuse: 6, Abandon: 4, SmallMem: true},
}

func nontrivial(prop string, o *Outcome) bool {
	c := o.Classes
	switch prop {
	case "C01":
		return c["read_of_flushed_key"] && c["read_of_flushed_delete"]
	case "C02":
		return c["reopen_with_tables"] && c["post_reopen_overwrite_read_from_table"]
	case "C05":
		return c["snapshot_read_after_newer_version_flushed"] && c["compaction_happened"]
	case "C06":
		return c["overlapping_rw_txns_with_intersecting_sets"] && (c["conflict_refused"] || c["under_abort_seen"])
	case "C07":
		return c["conflict_refused"] && c["commit_after_concurrent_commit_of_other_keys"]
	case "C08":
		return (c["abandoned_multi_key"] || c["discard_with_writes"] || c["update_closure_failed_after_writes"]) && c["flushed"] && (c["reopen"] || c["compaction_happened"])
	}
	return false
}

// classifyHistory adds the C06 class: two committed/attempted rw transactions with
// overlapping lifetimes and intersecting read/write sets.
func classifyHistory(o *Outcome) {
	h := o.Hist
	for i := range h {
		if !h[i].RW || len(h[i].Writes) == 0 {
			continue
		}
		for j := range h {
			if i == j || !h[j].RW || len(h[j].Writes) == 0 {
				continue
			}
			if h[i].EndRet < h[j].BeginCall || h[j].EndRet < h[i].BeginCall {
				continue
			}
			for _, r := range h[i].Reads {
				for _, w := range h[j].Writes {
					if r.K == w.K {
						o.class("overlapping_rw_txns_with_intersecting_sets")
						return
					}
				}
			}
		}
	}
}

type verdict struct {
	kind, msg string
}

func judge(prop string, o *Outcome) *verdict {
	for _, d := range o.Discs {
		if owns[prop][d.Kind] || ownedByAll[d.Kind] {
			return &verdict{d.Kind, fmt.Sprintf("step %d: %s", d.Step, d.Msg)}
		}
	}
	return nil
}

func foreign(prop string, o *Outcome) []string {
	seen := map[string]bool{}
	for _, d := range o.Discs {
		if !(owns[prop][d.Kind] || ownedByAll[d.Kind]) {
			seen[d.Kind] = true
		}
	}
	var out []string
	for k := range seen {
		out = append(out, k)
	}
	sort.Strings(out)
	return out
}

// serializability of the recorded history, decided by porcupine (second, independent oracle)
func checkHistory(prop string, o *Outcome) {
	if prop != "C06" && prop != "C05" {
		return
	}
	if len(o.Hist) > 90 {
		o.Counts["history_too_long_not_checked"]++
		return
	}
	if prop == "C06" {
		r := hist.CheckSerializable(o.Hist, nil, 20*time.Second)
		o.Counts["porcupine_"+r.Verdict]++
		if r.Verdict == "illegal" {
			o.Discs = append(o.Discs, Disc{Kind: "not_serializable", Step: -1, Msg: fmt.Sprintf("porcupine: the %d committed/read-only transactions of this history have no serial order that respects real time and explains every read", r.Ops)})
		}
	} else {
		r := hist.CheckSnapshots(o.Hist, nil, 20*time.Second)
		o.Counts["porcupine_split_"+r.Verdict]++
		if r.Verdict == "illegal" {
			o.Discs = append(o.Discs, Disc{Kind: "snapshot_read", Step: -1, Msg: fmt.Sprintf("porcupine: no commit order exists of which every transaction's reads are a prefix (%d operations)", r.Ops)})
		}
	}
}

func scratch(t *testing.T) string {
	d := os.Getenv("VERIF_SCRATCH")
	if d == "" {
		d = t.TempDir()
	}
	return d
}

func e1Test(t *testing.T, prop string) {
	rec := vlib.For(prop, "Test"+prop)
	pf := profiles[prop]
	if os.Getenv("VERIF_FREE") == "1" {
		pf.Free = true
	}
	dir := scratch(t)
	HangHook = func(step int, op string, dump string, deadlock bool) {
		// a call that never returns is property C15's business; here the run is inconclusive
		if deadlock {
			rec.Note(fmt.Sprintf("engine call did not return at step %d (%s) and no goroutine of the engine can run (see the C15 check)", step, op))
		} else {
			rec.Note(fmt.Sprintf("step %d (%s) made no progress for 20 minutes although goroutines are runnable", step, op))
		}
		_ = os.WriteFile(os.Getenv("VERIF_OUT")+"/hang_"+prop+".txt", []byte(dump), 0o644)
		_ = os.MkdirAll("/dev/shm/verif-hangs", 0o755)
		_ = os.WriteFile(fmt.Sprintf("/dev/shm/verif-hangs/hang_%s_%d.txt", prop, os.Getpid()), []byte(dump), 0o644)
		vlib.FlushAll(false)
		os.Exit(3)
	}
	one := func(p Program, cj []byte, fatal func(string, ...any)) {
		rec.Begin(cj)
		t0 := time.Now()
		o := Run(p, dir)
		if os.Getenv("VERIF_DEBUG_TIMES") != "" {
			fmt.Fprintf(os.Stderr, "%s CASE ops=%d mem=%d block=%d run=%.2fs classes=%v counts=%v\n", time.Now().Format("15:04:05"), len(p.Ops), p.Cfg.MemThreshold, p.Cfg.Block, time.Since(t0).Seconds(), len(o.Classes), o.Counts)
		}
		t1 := time.Now()
		classifyHistory(o)
		t2 := time.Now()
		checkHistory(prop, o)
		if os.Getenv("VERIF_DEBUG_TIMES") != "" && time.Since(t1) > time.Second {
			fmt.Fprintf(os.Stderr, "SLOWHIST hist=%d classify=%.2fs check=%.2fs\n", len(o.Hist), t2.Sub(t1).Seconds(), time.Since(t2).Seconds())
		}
		var classes []string
		for c := range o.Classes {
			classes = append(classes, c)
		}
		if p.Free {
			classes = append(classes, "free_running_flusher")
		} else {
			classes = append(classes, "gated_flusher")
		}
		if strings.Contains(o.Trace, "STUCK") {
			classes = append(classes, "gates_stuck")
			rec.Note("gate controller gave up steering: " + o.Trace)
		}
		sort.Strings(classes)
		v := judge(prop, o)
		rec.End(cj, v == nil && nontrivial(prop, o), classes...)
		for k, n := range o.Counts {
			rec.Count(k, int64(n))
		}
		for _, k := range foreign(prop, o) {
			rec.Count("foreign_discrepancy_"+k, 1)
		}
		if v != nil {
			rec.Violation(v.kind, v.msg, cj, map[string]any{"all_discrepancies": o.Discs, "gate_trace": o.Trace})
			fatal("%s: %s", v.kind, v.msg)
		}
	}
	if rc := vlib.ReplayCase(); rc != nil {
		var p Program
		if err := json.Unmarshal(rc, &p); err != nil {
			t.Fatalf("bad replay case: %v", err)
		}
		tries := 1
		if p.Free {
			tries = 30
		}
		for i := 0; i < tries; i++ {
			one(p, rc, t.Fatalf)
		}
		return
	}
	rapid.Check(t, func(rt *rapid.T) {
		p := rapid.Custom(func(t *rapid.T) Program { return genProgram(t, pf) }).Draw(rt, "program")
		one(p, vlib.JSON(p), rt.Fatalf)
	})
}

func TestC01(t *testing.T) { e1Test(t, "C01") }
func TestC02(t *testing.T) { e1Test(t, "C02") }
func TestC05(t *testing.T) { e1Test(t, "C05") }
func TestC06(t *testing.T) { e1Test(t, "C06") }
func TestC07(t *testing.T) { e1Test(t, "C07") }
func TestC08(t *testing.T) { e1Test(t, "C08") }
