//go:build verif

package dbsm

import (
	"bytes"
	"errors"
	"fmt"
	"os"
	"path/filepath"
	"runtime"
	"sort"
	"strings"
	"sync/atomic"
	"time"

	"github.com/B1NARY-GR0UP/originium"
	"github.com/B1NARY-GR0UP/originium/types"

	"verif/harness/vlib/hist"
)

// Disc is one disagreement between the engine and an oracle.
type Disc struct {
	Kind string `json:"kind"`
	Step int    `json:"step"`
	Msg  string `json:"msg"`
}

// Outcome of interpreting one program.
type Outcome struct {
	Discs   []Disc
	Classes map[string]bool
	Hist    []hist.Txn
	Counts  map[string]int
	Trace   string
}

func (o *Outcome) class(c string) { o.Classes[c] = true }

type liveTxn struct {
	tx       *originium.Txn
	m        *MTxn
	h        *hist.Txn
	readKeys []int // keys it has read (for reread)
	tmpl     int   // -1 / -2 when opened by a template
}

type interp struct {
	p       Program
	dir     string
	db      *originium.DB
	g       *Gates
	model   *Model
	out     *Outcome
	open    []*liveTxn
	done    []*liveTxn // finished transactions kept for misuse probes
	ntxn    int
	clock   int64
	step    int
	cfg     Cfg
	tokens  map[string]int // value token -> transaction number
	status  map[int]string // transaction number -> open | committed | abandoned
	reopens int
	// bookkeeping for classes
	memIdx        map[int]int  // key -> index of the (latest possible) memtable holding its newest version; -1: in a table since a reopen
	lastWrite     map[int]int  // key -> commit index of newest version
	writtenSince  map[int]bool // key written after the last reopen
	existedBefore map[int]bool // key had a version before the last reopen
	commitsAtOpen int
	closed        bool
	beat          atomic.Int64
}

var errClosure = errors.New("closure gave up")

var runSeq int

func toConfig(c Cfg) originium.Config {
	return originium.Config{
		SkipListMaxLevel: c.SkipListMaxLevel, SkipListP: c.SkipListP,
		MemtableByteThreshold: c.MemThreshold, ImmutableBuffer: c.ImmBuf,
		DataBlockByteThreshold: c.Block, L0TargetNum: c.L0Target, LevelRatio: c.Ratio,
	}
}

// Run interprets the program against a fresh directory.
func Run(p Program, scratch string) (out *Outcome) {
	out = &Outcome{Classes: map[string]bool{}, Counts: map[string]int{}}
	// a directory of its own for every case: a flusher goroutine that outlives its case (engine
	// misbehaviour under test) can then neither write into the next case's directory nor be taken
	// for the next case's flusher by the gate controller
	runSeq++
	dir := filepath.Join(scratch, fmt.Sprintf("db-%d", runSeq))
	_ = os.RemoveAll(dir)
	defer os.RemoveAll(dir)
	in := &interp{p: p, dir: dir, model: &Model{}, out: out, cfg: p.Cfg, tokens: map[string]int{}, status: map[int]string{},
		memIdx: map[int]int{}, lastWrite: map[int]int{}, writtenSince: map[int]bool{}, existedBefore: map[int]bool{}}
	defer func() {
		if r := recover(); r != nil {
			in.disc("panic", fmt.Sprintf("panic in the foreground at step %d (%s): %v", in.step, in.opName(), r))
		}
		if in.g != nil {
			out.Trace = in.g.Trace()
			// never leave a flusher goroutine parked at a gate
			in.g.free.Store(true)
			select {
			case <-in.g.arrive:
				in.g.release <- struct{}{}
			default:
				if in.g.held {
					in.g.held = false
					in.g.release <- struct{}{}
				}
			}
			in.g.detach()
		}
	}()
	stopWD := startWatchdog(in)
	defer stopWD()
	if p.Big {
		out.class("multi_MiB_tables_mode")
	}
	if p.Many {
		out.class("many_tables_mode")
	}
	if p.Long {
		out.class("long_lived_txn_mode")
	}
	if !in.openDB() {
		return
	}
	for i, o := range p.Ops {
		in.step = i
		in.beat.Store(time.Now().UnixNano())
		in.exec(o)
		if len(out.Discs) > 40 {
			break
		}
	}
	in.step = len(p.Ops)
	in.beat.Store(time.Now().UnixNano())
	in.finish()
	return
}

// HangHook is called (from the watchdog goroutine) when one program step is stuck: the
// foreground goroutine sits inside the engine and, by the goroutine dump, nothing that
// belongs to the engine or this harness can run any more. The process cannot continue
// with further cases.
var HangHook func(step int, op string, dump string, deadlock bool)

const hangProbe = 45 * time.Second

// stuckForGood: every goroutine with engine or harness frames is parked in a state that only
// another goroutine can end (no timers involved), i.e. waiting longer cannot help.
func stuckForGood(dump string) bool {
	relevant, blocked := 0, 0
	for _, g := range strings.Split(dump, "\n\n") {
		if strings.Contains(g, "startWatchdog") {
			continue
		}
		if !strings.Contains(g, "B1NARY-GR0UP/originium") && !strings.Contains(g, "checks/dbsm.") {
			// a library goroutine the engine may be waiting for (the s2 writer's workers)
			if h := strings.TrimLeft(g, "\n"); strings.HasPrefix(h, "goroutine ") && (strings.Contains(strings.SplitN(h, "\n", 2)[0], "[runnable") || strings.Contains(strings.SplitN(h, "\n", 2)[0], "[running") || strings.Contains(strings.SplitN(h, "\n", 2)[0], "[syscall")) {
				return false
			}
			continue
		}
		nl := strings.IndexByte(g, '\n')
		if nl < 0 {
			continue
		}
		hdr := g[:nl]
		relevant++
		ok := false
		for _, st := range []string{"[chan receive", "[chan send", "[select", "[semacquire", "[sync.Mutex.Lock", "[sync.RWMutex.RLock", "[sync.RWMutex.Lock", "[sync.Cond.Wait", "[sync.WaitGroup.Wait"} {
			if strings.Contains(hdr, st) {
				ok = true
			}
		}
		if !ok || strings.Contains(g, "time.Sleep") || strings.Contains(g, "time.After") || strings.Contains(g, "(*Timer)") || strings.Contains(g, "(*Ticker)") {
			return false
		}
		blocked++
	}
	return relevant > 0 && relevant == blocked
}

func startWatchdog(in *interp) func() {
	in.beat.Store(time.Now().UnixNano())
	stop := make(chan struct{})
	go func() {
		t := time.NewTicker(5 * time.Second)
		defer t.Stop()
		for {
			select {
			case <-stop:
				return
			case <-t.C:
				idle := time.Since(time.Unix(0, in.beat.Load()))
				if idle < hangProbe || HangHook == nil {
					continue
				}
				buf := make([]byte, 2<<20)
				buf = buf[:runtime.Stack(buf, true)]
				if stuckForGood(string(buf)) {
					HangHook(in.step, in.opName(), string(buf), true)
					return
				}
				if idle > 20*time.Minute {
					HangHook(in.step, in.opName(), string(buf), false)
					return
				}
			}
		}
	}()
	return func() { close(stop) }
}

func (in *interp) opName() string {
	if in.step < len(in.p.Ops) {
		return in.p.Ops[in.step].Op
	}
	return "end"
}

func (in *interp) disc(kind, msg string) {
	in.out.Discs = append(in.out.Discs, Disc{Kind: kind, Step: in.step, Msg: msg})
}

func (in *interp) tick() int64 { in.clock++; return in.clock }

func (in *interp) key(k int) string { return string(in.p.Keys[k%len(in.p.Keys)]) }

func (in *interp) openDB() bool {
	in.g = newGates(in.dir, in.p.Seed+int64(in.reopens)*7919, in.p.Free)
	var db *originium.DB
	var err error
	func() {
		defer func() {
			if r := recover(); r != nil {
				err = fmt.Errorf("panic: %v", r)
			}
		}()
		db, err = originium.Open(in.dir, toConfig(in.cfg))
	}()
	if err != nil {
		in.disc("open_failed", fmt.Sprintf("Open #%d failed: %v", in.reopens, err))
		in.g = nil
		return false
	}
	in.db = db
	in.g.attach(db)
	in.closed = false
	return true
}

// value builds the unique token of a Set.
func (in *interp) value(t *MTxn, vlen int) string {
	if vlen < 0 {
		return ""
	}
	t.nsets++
	tok := fmt.Sprintf("%d.%d", t.no, t.nsets)
	pad := string(in.p.Pad)
	if pad == "" {
		pad = "x"
	}
	v := tok + strings.Repeat(pad, vlen)
	if pad == "rand" {
		// incompressible padding (tables and wal files as large on disk as in memory)
		b := make([]byte, 0, vlen)
		x := uint64(t.no)*0x9E3779B97F4A7C15 + uint64(t.nsets) + 1
		for i := 0; i < vlen; i++ {
			x ^= x << 13
			x ^= x >> 7
			x ^= x << 17
			b = append(b, byte(x>>24))
		}
		if vlen > 0 {
			b[0] = '~'
		}
		v = tok + string(b)
	}
	in.tokens[tok] = t.no
	return v
}

// tokenOf: the leading "<txn>.<set>" of a value (everything up to the first padding byte).
func tokenOf(v string) string {
	for i := 0; i < len(v); i++ {
		if (v[i] < '0' || v[i] > '9') && v[i] != '.' {
			return v[:i]
		}
	}
	return v
}

func (in *interp) begin(rw bool, tmpl int) *liveTxn {
	in.ntxn++
	h := &hist.Txn{ID: in.ntxn, RW: rw, BeginCall: in.tick()}
	tx := in.db.Begin(rw)
	h.BeginRet = in.tick()
	lt := &liveTxn{tx: tx, m: in.model.begin(in.ntxn, rw), h: h, tmpl: tmpl}
	in.status[in.ntxn] = "open"
	in.open = append(in.open, lt)
	return lt
}

func (in *interp) pick(sel int) *liveTxn {
	if sel < 0 {
		for _, lt := range in.open {
			if lt.tmpl == sel {
				return lt
			}
		}
		return nil
	}
	if len(in.open) == 0 {
		return nil
	}
	return in.open[sel%len(in.open)]
}

func (in *interp) retire(lt *liveTxn) {
	for i, x := range in.open {
		if x == lt {
			in.open = append(in.open[:i], in.open[i+1:]...)
			break
		}
	}
	lt.tmpl = 0
	in.done = append(in.done, lt)
	if len(in.done) > 6 {
		in.done = in.done[1:]
	}
	in.out.Hist = append(in.out.Hist, *lt.h)
}

// checkRead compares one Get with the model and classifies a mismatch.
func (in *interp) checkRead(lt *liveTxn, k int, got []byte, ok bool) {
	_, buffered := lt.m.buffer[k]
	want, wok := in.model.get(lt.m, k)
	fresh := lt.m.snap == len(in.model.commits) && !(lt.m.rw && buffered)
	if !(lt.m.rw && buffered) {
		lt.h.Reads = append(lt.h.Reads, hist.Read{K: k, V: string(got), Found: ok})
		seen := false
		for _, rk := range lt.readKeys {
			if rk == k {
				seen = true
			}
		}
		if !seen {
			lt.readKeys = append(lt.readKeys, k)
		}
	}
	in.out.Counts["reads"]++
	// classes
	if !buffered {
		if in.inTable(k) {
			in.out.class("read_of_flushed_key")
			if wok {
				in.out.Counts["reads_from_tables"]++
			}
			if !wok {
				if _, ever := in.lastWrite[k]; ever {
					in.out.class("read_of_flushed_delete")
				}
			}
		}
		if !fresh {
			in.out.class("read_from_old_snapshot")
			if lw, has := in.lastWrite[k]; has && lw >= lt.m.snap {
				in.out.class("snapshot_read_of_key_overwritten_later")
				if in.inTable(k) {
					in.out.class("snapshot_read_after_newer_version_flushed")
				}
			}
		}
		if in.reopens > 0 && in.writtenSince[k] && in.existedBefore[k] {
			in.out.class("read_of_key_overwritten_after_reopen")
			if in.inTable(k) {
				in.out.class("post_reopen_overwrite_read_from_table")
			}
		}
	} else {
		in.out.class("own_write_read")
	}
	if ok == wok && (!ok || bytes.Equal(got, []byte(want.val))) {
		return
	}
	// mismatch
	gotS := "not-found"
	if ok {
		gotS = fmt.Sprintf("%q", trunc(string(got)))
	}
	wantS := "not-found"
	if wok {
		wantS = fmt.Sprintf("%q", trunc(want.val))
	}
	msg := fmt.Sprintf("txn %d (snapshot after %d of %d commits, rw=%v) Get(%q) = %s, model = %s", lt.m.no, lt.m.snap, len(in.model.commits), lt.m.rw, in.key(k), gotS, wantS)
	kind := "snapshot_read"
	if fresh {
		kind = "fresh_read"
	}
	if ok {
		if no, known := in.tokens[tokenOf(string(got))]; known {
			switch in.status[no] {
			case "abandoned":
				kind = "abandoned_visible"
				msg += fmt.Sprintf(" - the value was written by transaction %d, which was never committed", no)
			case "refused":
				kind = "refused_visible"
				msg += fmt.Sprintf(" - the value was written by transaction %d, whose Commit was refused with a conflict", no)
			case "open":
				if no != lt.m.no {
					kind = "dirty_read"
					msg += fmt.Sprintf(" - the value belongs to transaction %d, which is still open", no)
				}
			}
		} else if len(got) > 0 {
			kind = "invented_value"
		}
	}
	in.disc(kind, msg)
	if fresh && in.reopens > 0 && in.writtenSince[k] {
		in.disc("post_reopen_read", msg)
	}
}

func trunc(s string) string {
	if len(s) > 40 {
		return s[:40] + "..."
	}
	return s
}

func (in *interp) doGet(lt *liveTxn, k int) {
	got, ok := lt.tx.Get(in.key(k))
	in.checkRead(lt, k, got, ok)
}

func (in *interp) doSet(lt *liveTxn, k int, vlen int, del bool, via ...int) {
	mode := 0
	if len(via) > 0 {
		mode = via[0]
	}
	var err error
	if !lt.m.rw {
		// writing in a read-only transaction is misuse with a documented error
		if del {
			err = lt.tx.Delete(in.key(k))
		} else {
			err = lt.tx.Set(in.key(k), []byte("ro"))
		}
		if !errors.Is(err, originium.ErrReadOnlyTxn) {
			in.disc("misuse_result", fmt.Sprintf("write in read-only txn %d returned %v, want ErrReadOnlyTxn", lt.m.no, err))
		}
		in.out.class("misuse_write_in_readonly")
		return
	}
	if del {
		if mode == 2 {
			// a deletion expressed through the public SetEntry, carrying a value that must never be read
			err = lt.tx.SetEntry(types.Entry{Key: in.key(k), Value: []byte("tombstone-payload"), Tombstone: true, Version: 7})
			in.out.class("delete_via_setentry")
		} else {
			err = lt.tx.Delete(in.key(k))
		}
		if err == nil {
			if _, ok := lt.m.buffer[k]; !ok {
				lt.m.order = append(lt.m.order, k)
			}
			lt.m.buffer[k] = mval{del: true, txn: lt.m.no}
		}
	} else {
		v := in.value(lt.m, vlen)
		if mode == 1 {
			// the public SetEntry with a caller-supplied Version (the engine must stamp its own)
			err = lt.tx.SetEntry(types.Entry{Key: in.key(k), Value: []byte(v), Version: int64(1<<40 + k)})
			in.out.class("set_via_setentry")
		} else {
			err = lt.tx.Set(in.key(k), []byte(v))
		}
		if err == nil {
			if _, ok := lt.m.buffer[k]; !ok {
				lt.m.order = append(lt.m.order, k)
			}
			lt.m.buffer[k] = mval{val: v, txn: lt.m.no}
		}
	}
	if err != nil {
		in.disc("write_rejected", fmt.Sprintf("Set/Delete on live read-write txn %d returned %v", lt.m.no, err))
	}
}

// doCommit calls Commit, compares with the prediction and lets the model follow reality.
func (in *interp) doCommit(lt *liveTxn) error {
	predicted := in.model.conflict(lt.m)
	lt.h.EndCall = in.tick()
	rot0 := 0
	if in.g != nil {
		rot0 = in.g.Rotations
	}
	err := lt.tx.Commit()
	lt.h.EndRet = in.tick()
	for _, k := range lt.m.order {
		v := lt.m.buffer[k]
		lt.h.Writes = append(lt.h.Writes, hist.Write{K: k, V: v.val, Del: v.del})
	}
	switch {
	case err == nil:
		lt.h.Outcome = "commit"
		if predicted {
			in.disc("commit_result", fmt.Sprintf("txn %d committed although a key it read from the store (%v) was written by a transaction that committed after its snapshot (%d of %d commits)", lt.m.no, keysOf(lt.m.storeReads), lt.m.snap, len(in.model.commits)))
			in.out.class("under_abort_seen")
		}
		if lt.m.rw && len(lt.m.buffer) > 0 {
			if len(in.model.commits) > lt.m.snap {
				in.out.class("commit_after_concurrent_commit_of_other_keys")
			}
			in.model.apply(lt.m)
			ci := len(in.model.commits) - 1
			for k := range lt.m.buffer {
				in.lastWrite[k] = ci
				if in.g != nil {
					in.memIdx[k] = in.g.Rotations
					if in.g.Pending() > 0 || in.g.held {
						// committed while a flush was pending: its memtable is behind others in the queue
						in.out.class("commit_while_flush_pending")
					}
				}
				if in.reopens > 0 {
					in.writtenSince[k] = true
				}
			}
			in.status[lt.m.no] = "committed"
			if len(lt.m.buffer) >= 2 {
				in.out.class("multi_key_commit")
				if in.g != nil && in.g.Rotations > rot0 {
					in.out.class("multi_key_commit_straddling_rotation")
				}
			}
			in.out.Counts["commits"]++
		} else {
			in.status[lt.m.no] = "committed"
			lt.m.abandoned = false
			if lt.m.rw && len(lt.m.storeReads) > 0 {
				in.out.class("rw_txn_with_reads_no_writes_commits")
			}
		}
	case errors.Is(err, originium.ErrConflictTxn):
		lt.h.Outcome = "conflict"
		in.status[lt.m.no] = "refused"
		lt.m.abandoned = true
		in.out.class("conflict_refused")
		in.out.Counts["conflicts"]++
		if !predicted {
			in.disc("commit_result", fmt.Sprintf("txn %d was refused with ErrConflictTxn although none of the keys it read from the store (%v) was written after its snapshot (%d of %d commits); buffer %v", lt.m.no, keysOf(lt.m.storeReads), lt.m.snap, len(in.model.commits), lt.m.order))
		}
	default:
		lt.h.Outcome = "error"
		in.status[lt.m.no] = "abandoned"
		in.disc("commit_result", fmt.Sprintf("Commit of live txn %d returned %v", lt.m.no, err))
	}
	lt.m.finished = true
	in.retire(lt)
	return err
}

func keysOf(m map[int]bool) []int {
	var o []int
	for k := range m {
		o = append(o, k)
	}
	sort.Ints(o)
	return o
}

func (in *interp) doDiscard(lt *liveTxn) {
	lt.h.EndCall = in.tick()
	lt.tx.Discard()
	lt.h.EndRet = in.tick()
	lt.h.Outcome = "discard"
	lt.m.finished = true
	if lt.m.rw && len(lt.m.buffer) > 0 {
		lt.m.abandoned = true
		in.out.class("discard_with_writes")
		if len(lt.m.buffer) >= 2 {
			in.out.class("abandoned_multi_key")
		}
	}
	in.status[lt.m.no] = "abandoned"
	if !lt.m.rw || len(lt.m.buffer) == 0 {
		in.status[lt.m.no] = "committed" // nothing to leave behind
	}
	in.retire(lt)
}

// freshView reads keys in a new read-only transaction.
func (in *interp) freshView(keys []int) {
	if in.closed {
		return
	}
	in.ntxn++
	no := in.ntxn
	h := &hist.Txn{ID: no, BeginCall: in.tick()}
	var lt *liveTxn
	err := in.db.View(func(tx *originium.Txn) error {
		h.BeginRet = in.tick()
		lt = &liveTxn{tx: tx, m: in.model.begin(no, false), h: h}
		in.status[no] = "open"
		for _, k := range keys {
			in.doGet(lt, k)
		}
		h.EndCall = in.tick()
		return nil
	})
	h.EndRet = in.tick()
	h.Outcome = "discard"
	in.status[no] = "committed"
	if err != nil {
		in.disc("view_error", fmt.Sprintf("View on an open DB returned %v", err))
	}
	in.out.Hist = append(in.out.Hist, *h)
}

func (in *interp) allKeys() []int {
	ks := make([]int, len(in.p.Keys))
	for i := range ks {
		ks[i] = i
	}
	return ks
}

func (in *interp) exec(o Op) {
	if in.db == nil {
		return
	}
	switch o.Op {
	case "begin":
		if len(in.open) < 4 {
			in.begin(o.RW, 0)
		}
	case "tbegin":
		for _, lt := range in.open {
			if lt.tmpl == -1 || lt.tmpl == -2 { // a previous template is still running: end it
				lt.tmpl = 0
			}
		}
		if len(in.open) <= 4 {
			in.begin(true, -1)
			in.begin(true, -2)
			in.out.class("anomaly_template")
		}
	case "lbegin":
		for _, lt := range in.open {
			if lt.tmpl == -3 {
				lt.tmpl = 0
			}
		}
		if len(in.open) <= 4 {
			in.begin(o.RW, -3)
			in.out.class("template_with_long_lived_txn")
		}
	case "settle":
		// steering only: give the watermark goroutines a moment to process what was just finished
		time.Sleep(2 * time.Millisecond)
	case "tmpl_view":
		in.freshView([]int{o.K % len(in.p.Keys), o.N % len(in.p.Keys)})
	case "get":
		if lt := in.pick(o.T); lt != nil {
			in.doGet(lt, o.K%len(in.p.Keys))
		}
	case "reread":
		if lt := in.pick(o.T); lt != nil {
			for _, k := range lt.readKeys {
				in.doGet(lt, k)
			}
			if len(lt.readKeys) > 0 {
				in.out.class("reread")
			}
		}
	case "set", "del":
		if lt := in.pick(o.T); lt != nil {
			in.doSet(lt, o.K%len(in.p.Keys), o.VLen, o.Op == "del", o.Via)
		}
	case "commit":
		if lt := in.pick(o.T); lt != nil {
			wrote := lt.m.rw && len(lt.m.buffer) > 0
			keys := append([]int{}, lt.m.order...)
			if err := in.doCommit(lt); err == nil && wrote && in.p.AutoRead {
				in.afterCommit(keys)
			}
		}
	case "discard":
		if lt := in.pick(o.T); lt != nil {
			in.doDiscard(lt)
		}
	case "update":
		in.doUpdate(o)
	case "marathon":
		in.out.class("marathon_mode")
		for i := 0; i < o.N; i++ {
			in.beat.Store(time.Now().UnixNano())
			in.doUpdate(Op{Op: "update", Ups: []UpOp{{Op: "set", K: i % len(in.p.Keys), VLen: 0}}})
			if len(in.out.Discs) > 0 {
				break
			}
		}
	case "burst":
		for i := 0; i < o.N; i++ {
			in.beat.Store(time.Now().UnixNano())
			in.doUpdate(Op{Op: "update", Ups: []UpOp{{Op: "set", K: (o.K + i) % len(in.p.Keys), VLen: 0}}})
			if len(in.out.Discs) > 0 && o.N > 100 {
				break
			}
		}
		if len(in.open) > 0 {
			in.out.class("burst_of_commits_with_open_txn")
			if o.N >= 900 {
				in.out.class("burst_of_900_or_more_commits_with_open_txn")
			}
		}
	case "view":
		ks := make([]int, 0, len(o.Ups))
		for _, u := range o.Ups {
			ks = append(ks, u.K%len(in.p.Keys))
		}
		in.freshView(ks)
	case "fstep":
		if in.g != nil {
			c0 := in.g.Cycles
			in.g.Step(o.N)
			if in.g.Cycles > c0 {
				in.out.class("flush_cycle_completed_by_step")
			}
			in.rereadPinned()
		}
	case "fidle":
		if in.g != nil {
			in.g.RunToIdle()
			in.rereadPinned()
		}
	case "checkall":
		in.freshView(in.allKeys())
	case "reopen":
		in.doReopen(o)
	case "misuse":
		in.doMisuse(o)
	}
	in.observeFiles()
}

// rereadPinned: open transactions re-read what they have read, right after background work.
func (in *interp) rereadPinned() {
	for _, lt := range append([]*liveTxn{}, in.open...) {
		if len(lt.readKeys) > 0 && len(lt.readKeys) <= 6 {
			for _, k := range lt.readKeys {
				in.doGet(lt, k)
			}
			in.out.class("reread_after_flusher_step")
		}
	}
}

// inTable: the memtable that received the newest version of k has been flushed
// (memtables are flushed in rotation order), so a read of k is served by a table.
func (in *interp) inTable(k int) bool {
	mi, has := in.memIdx[k]
	if !has || in.g == nil {
		return false
	}
	return mi < 0 || in.g.FlushCount() > mi
}

func (in *interp) afterCommit(keys []int) {
	n := in.out.Counts["commits"]
	if n%8 == 0 {
		in.freshView(in.allKeys())
		return
	}
	in.freshView(keys)
}

func (in *interp) doUpdate(o Op) {
	in.ntxn++
	no := in.ntxn
	h := &hist.Txn{ID: no, RW: true, BeginCall: in.tick()}
	var lt *liveTxn
	ncalls := 0
	failed := false
	rot0 := in.g.Rotations
	predictedConflict := false
	err := in.db.Update(func(tx *originium.Txn) error {
		h.BeginRet = in.tick()
		lt = &liveTxn{tx: tx, m: in.model.begin(no, true), h: h}
		in.status[no] = "open"
		for _, u := range o.Ups {
			if o.FailAfter > 0 && ncalls >= o.FailAfter {
				failed = true
				return errClosure
			}
			ncalls++
			k := u.K % len(in.p.Keys)
			switch u.Op {
			case "get":
				in.doGet(lt, k)
			case "set":
				in.doSet(lt, k, u.VLen, false, u.Via)
			case "del":
				in.doSet(lt, k, 0, true, u.Via)
			}
		}
		if o.FailAfter > 0 {
			failed = true
			return errClosure
		}
		predictedConflict = in.model.conflict(lt.m)
		h.EndCall = in.tick()
		return nil
	})
	h.EndRet = in.tick()
	if lt == nil {
		in.disc("update_result", fmt.Sprintf("Update on an open DB did not run its closure (returned %v)", err))
		return
	}
	for _, k := range lt.m.order {
		v := lt.m.buffer[k]
		h.Writes = append(h.Writes, hist.Write{K: k, V: v.val, Del: v.del})
	}
	wrote := len(lt.m.buffer) > 0
	switch {
	case failed:
		h.Outcome = "discard"
		in.status[no] = "abandoned"
		if !wrote {
			in.status[no] = "committed"
		} else {
			in.out.class("update_closure_failed_after_writes")
			if len(lt.m.buffer) >= 2 {
				in.out.class("abandoned_multi_key")
			}
		}
		if !errors.Is(err, errClosure) {
			in.disc("update_result", fmt.Sprintf("Update whose closure returned an error returned %v instead of that error", err))
		}
	case err == nil:
		h.Outcome = "commit"
		in.status[no] = "committed"
		if predictedConflict {
			in.disc("commit_result", fmt.Sprintf("Update txn %d committed although the model predicts a conflict", no))
		}
		if wrote {
			in.model.apply(lt.m)
			ci := len(in.model.commits) - 1
			for k := range lt.m.buffer {
				in.lastWrite[k] = ci
				in.memIdx[k] = in.g.Rotations
				if in.reopens > 0 {
					in.writtenSince[k] = true
				}
			}
			if in.g.Pending() > 0 || in.g.held {
				in.out.class("commit_while_flush_pending")
			}
			if len(lt.m.buffer) >= 2 {
				in.out.class("multi_key_commit")
				if in.g.Rotations > rot0 {
					in.out.class("multi_key_commit_straddling_rotation")
				}
			}
			in.out.Counts["commits"]++
		}
	case errors.Is(err, originium.ErrConflictTxn):
		h.Outcome = "conflict"
		in.status[no] = "refused"
		if !predictedConflict {
			in.disc("commit_result", fmt.Sprintf("Update txn %d was refused with ErrConflictTxn; no other transaction can have committed during the closure", no))
		}
	default:
		h.Outcome = "error"
		in.status[no] = "abandoned"
		in.disc("update_result", fmt.Sprintf("Update returned unexpected error %v", err))
	}
	if len(in.out.Hist) < 5000 {
		in.out.Hist = append(in.out.Hist, *h)
	}
	if err == nil && wrote && !failed && in.p.AutoRead {
		in.afterCommit(append([]int{}, lt.m.order...))
	}
}

func (in *interp) doMisuse(o Op) {
	k := o.K % len(in.p.Keys)
	switch o.Mis {
	case "set_finished", "del_finished", "commit_finished", "get_finished", "discard_finished":
		if len(in.done) == 0 {
			return
		}
		lt := in.done[o.T%len(in.done)]
		in.out.class("misuse_finished_txn")
		switch o.Mis {
		case "set_finished", "del_finished":
			var err error
			if o.Mis == "set_finished" {
				err = lt.tx.Set(in.key(k), []byte("late"))
			} else {
				err = lt.tx.Delete(in.key(k))
			}
			ok := errors.Is(err, originium.ErrDiscardedTxn) || (!lt.m.rw && errors.Is(err, originium.ErrReadOnlyTxn))
			if !ok {
				in.disc("misuse_result", fmt.Sprintf("write on finished txn %d returned %v, want ErrDiscardedTxn", lt.m.no, err))
			}
		case "commit_finished":
			if err := lt.tx.Commit(); !errors.Is(err, originium.ErrDiscardedTxn) {
				in.disc("misuse_result", fmt.Sprintf("Commit on finished txn %d returned %v, want ErrDiscardedTxn", lt.m.no, err))
			}
		case "get_finished":
			if v, ok := lt.tx.Get(in.key(k)); ok {
				in.disc("misuse_result", fmt.Sprintf("Get on finished txn %d returned %q, want not-found", lt.m.no, trunc(string(v))))
			}
		case "discard_finished":
			lt.tx.Discard() // must be a no-op
		}
	case "set_empty_key", "del_empty_key", "get_empty_key":
		var lt *liveTxn
		for _, x := range in.open {
			if x.m.rw {
				lt = x
			}
		}
		if lt == nil {
			return
		}
		in.out.class("misuse_empty_key")
		switch o.Mis {
		case "set_empty_key":
			if err := lt.tx.Set("", []byte("e")); !errors.Is(err, originium.ErrEmptyKey) {
				in.disc("misuse_result", fmt.Sprintf("Set with empty key returned %v, want ErrEmptyKey", err))
			}
		case "del_empty_key":
			if err := lt.tx.Delete(""); !errors.Is(err, originium.ErrEmptyKey) {
				in.disc("misuse_result", fmt.Sprintf("Delete with empty key returned %v, want ErrEmptyKey", err))
			}
		case "get_empty_key":
			if v, ok := lt.tx.Get(""); ok {
				in.disc("misuse_result", fmt.Sprintf("Get with empty key returned %q, want not-found", trunc(string(v))))
			}
		}
	case "set_readonly", "del_readonly", "commit_readonly":
		var lt *liveTxn
		for _, x := range in.open {
			if !x.m.rw {
				lt = x
			}
		}
		if lt == nil {
			return
		}
		switch o.Mis {
		case "set_readonly":
			in.doSet(lt, k, 0, false)
		case "del_readonly":
			in.doSet(lt, k, 0, true)
		case "commit_readonly":
			in.doCommit(lt)
		}
	}
}

// doReopen: end open transactions, read everything, Close, probe the closed
// handle, Open with the next configuration, read everything again.
func (in *interp) doReopen(o Op) {
	for _, lt := range append([]*liveTxn{}, in.open...) {
		in.doDiscard(lt)
	}
	before := in.snapshotAll()
	queued, _, imm := originium.VerifQueue(in.db)
	if queued > 0 || imm > 0 || in.g.held {
		in.out.class("close_with_flush_pending")
	}
	in.g.Open()
	var perr any
	func() {
		defer func() { perr = recover() }()
		in.db.Close()
	}()
	if perr != nil {
		in.disc("close_panic", fmt.Sprintf("Close panicked: %v", perr))
		in.db = nil
		return
	}
	in.closed = true
	// misuse: any call through View/Update after Close
	ran := false
	if err := in.db.View(func(*originium.Txn) error { ran = true; return nil }); !errors.Is(err, originium.ErrDBClosed) || ran {
		in.disc("misuse_result", fmt.Sprintf("View after Close returned %v (closure ran: %v), want ErrDBClosed", err, ran))
	}
	ran = false
	if err := in.db.Update(func(tx *originium.Txn) error { ran = true; return tx.Set(in.key(0), []byte("after-close")) }); !errors.Is(err, originium.ErrDBClosed) || ran {
		in.disc("misuse_result", fmt.Sprintf("Update after Close returned %v (closure ran: %v), want ErrDBClosed", err, ran))
	}
	in.out.class("misuse_after_close")
	in.g.detach()
	originium.VerifStopOracle(in.db)
	if hasTables(in.dir) {
		in.out.class("reopen_with_tables")
	}
	if hasLevel(in.dir, 1) {
		in.out.class("reopen_with_level_ge1_tables")
	}
	if hasLevel(in.dir, 10) {
		in.out.class("reopen_with_level_ge10_tables")
	}
	if o.Cfg != nil {
		if *o.Cfg != in.cfg {
			in.out.class("reopen_config_changed")
		}
		in.cfg = *o.Cfg
	}
	in.reopens++
	in.done = nil
	for k := range in.lastWrite {
		in.existedBefore[k] = true
	}
	in.writtenSince = map[int]bool{}
	for k := range in.memIdx {
		in.memIdx[k] = -1 // everything was flushed by Close
	}
	in.db = nil
	if !in.openDB() {
		return
	}
	if in.reopens >= 3 {
		in.out.class("ge3_reopen_cycles")
	}
	after := in.snapshotAll()
	for k := range before {
		if before[k] != after[k] {
			in.disc("reopen_diff", fmt.Sprintf("key %q read %s before Close and %s after reopening", in.key(k), before[k], after[k]))
			break
		}
	}
	in.out.class("reopen")
}

// snapshotAll reads every key in one fresh transaction, judged against the model as usual.
func (in *interp) snapshotAll() map[int]string {
	res := map[int]string{}
	in.ntxn++
	no := in.ntxn
	h := &hist.Txn{ID: no, BeginCall: in.tick()}
	_ = in.db.View(func(tx *originium.Txn) error {
		h.BeginRet = in.tick()
		lt := &liveTxn{tx: tx, m: in.model.begin(no, false), h: h}
		in.status[no] = "open"
		for k := range in.p.Keys {
			got, ok := tx.Get(in.key(k))
			in.checkRead(lt, k, got, ok)
			if ok {
				res[k] = fmt.Sprintf("%q", trunc(string(got)))
			} else {
				res[k] = "not-found"
			}
		}
		h.EndCall = in.tick()
		return nil
	})
	h.EndRet = in.tick()
	h.Outcome = "discard"
	in.status[no] = "committed"
	in.out.Hist = append(in.out.Hist, *h)
	return res
}

func (in *interp) finish() {
	if in.db == nil || in.closed {
		return
	}
	// end: everything still open is read once more and discarded, then a full fresh read,
	// then the flusher finishes and the full read is repeated
	for _, lt := range append([]*liveTxn{}, in.open...) {
		for _, k := range lt.readKeys {
			in.doGet(lt, k)
		}
		in.doDiscard(lt)
	}
	in.freshView(in.allKeys())
	in.g.RunToIdle()
	in.observeFiles()
	in.freshView(in.allKeys())
	in.g.Open()
	var perr any
	func() {
		defer func() { perr = recover() }()
		in.db.Close()
	}()
	if perr != nil {
		in.disc("close_panic", fmt.Sprintf("final Close panicked: %v", perr))
		return
	}
	in.closed = true
	originium.VerifStopOracle(in.db)
}

func hasTables(dir string) bool {
	m, _ := filepath.Glob(filepath.Join(dir, "*.db"))
	return len(m) > 0
}

func hasLevel(dir string, min int) bool {
	m, _ := filepath.Glob(filepath.Join(dir, "*.db"))
	for _, f := range m {
		var l, i int
		if _, err := fmt.Sscanf(filepath.Base(f), "%d-%d.db", &l, &i); err == nil && l >= min {
			return true
		}
	}
	return false
}

// observeFiles classifies by what is in the directory (steering/classification only).
func (in *interp) observeFiles() {
	m, _ := filepath.Glob(filepath.Join(in.dir, "*.db"))
	l0 := 0
	for _, f := range m {
		var l, i int
		if _, err := fmt.Sscanf(filepath.Base(f), "%d-%d.db", &l, &i); err == nil {
			if l == 0 {
				l0++
			}
			if l >= 1 {
				in.out.class("compaction_happened")
			}
			if l >= 2 {
				in.out.class("cascaded_compaction")
			}
		}
	}
	if l0 >= 2 {
		in.out.class("ge2_l0_tables")
	}
	if len(m) > 0 {
		in.out.class("flushed")
	}
}
