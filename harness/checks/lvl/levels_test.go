//go:build verif

// Package lvl drives the real levelManager (through the verif-only accessor
// originium.VerifLevels) with generated flush batches, watermarks, compactions
// and recoveries, and compares table lookups with brute force. C09 C10 C16.
package lvl

import (
	"bytes"
	"crypto/sha256"
	"encoding/json"
	"fmt"
	"os"
	"path/filepath"
	"sort"
	"strings"
	"sync"
	"testing"

	"github.com/B1NARY-GR0UP/originium"
	"github.com/B1NARY-GR0UP/originium/types"
	"pgregory.net/rapid"

	"verif/harness/vlib"
)

func TestMain(m *testing.M) { os.Exit(vlib.Main(m)) }

type lvOp struct {
	Op    string   `json:"op"` // flush reflush wm compact recover
	Batch []vlib.E `json:"batch,omitempty"`
	Ref   int      `json:"ref,omitempty"`
	W     uint64   `json:"w,omitempty"`
}

type lvCase struct {
	L0Target int        `json:"l0_target"`
	Ratio    int        `json:"ratio"`
	Block    int        `json:"block"`
	Keys     []vlib.Str `json:"keys"`
	Absent   []vlib.Str `json:"absent"`
	Ops      []lvOp     `json:"ops"`
	VerBase  uint64     `json:"version_base"` // every version is offset by this (timestamps far from zero)
	Bulk     bool       `json:"bulk,omitempty"`
}

// A value written as "\x02bulk:<n>:<token>" in a case stands for the token followed by n
// pseudo-random (incompressible) bytes: the multi-MiB size class without multi-MiB case files.
func expandVal(v vlib.Str) []byte {
	s := string(v)
	if !strings.HasPrefix(s, "\x02bulk:") {
		return []byte(s)
	}
	var n int
	var tok string
	if _, err := fmt.Sscanf(s[len("\x02bulk:"):], "%d:%s", &n, &tok); err != nil {
		return []byte(s)
	}
	out := make([]byte, 0, len(tok)+n)
	out = append(out, tok...)
	x := uint64(len(tok))*0x9E3779B97F4A7C15 + 1
	for _, c := range []byte(tok) {
		x = (x ^ uint64(c)) * 0x100000001B3
	}
	for i := 0; i < n; i++ {
		x ^= x << 13
		x ^= x >> 7
		x ^= x << 17
		out = append(out, byte(x>>24))
	}
	return out
}

// canonVal: values above 64 KiB are compared by length and digest.
func canonVal(b []byte) string {
	if len(b) <= 1<<16 {
		return string(b)
	}
	h := sha256.Sum256(b)
	return fmt.Sprintf("\x01len=%d sha256=%x", len(b), h[:12])
}

var canonCache sync.Map // bulk notation -> canonical form

// canonBatch: the reference form of a batch (what the tables must hold, canonically).
func canonBatch(b []vlib.E) []vlib.E {
	out := make([]vlib.E, len(b))
	for i, e := range b {
		out[i] = e
		if strings.HasPrefix(string(e.Val), "\x02bulk:") {
			c, ok := canonCache.Load(string(e.Val))
			if !ok {
				c = canonVal(expandVal(e.Val))
				canonCache.Store(string(e.Val), c)
			}
			out[i].Val = vlib.Str(c.(string))
		}
	}
	return out
}

func toEntries(b []vlib.E) []types.Entry {
	s := vlib.SortedV(b)
	out := make([]types.Entry, len(s))
	for i, e := range s {
		out[i] = types.Entry{Key: e.VK(), Value: expandVal(e.Val), Tombstone: e.Tomb, Version: int64(e.Ts)}
	}
	return out
}

// genLvCase draws only layouts reachable by flushToL0 + checkAndCompact + recover
// from flush batches in commit order (DESIGN.md G1).
func genLvCase(t *rapid.T, withCompaction bool) lvCase {
	c := lvCase{
		L0Target: rapid.IntRange(1, 3).Draw(t, "l0target"),
		Ratio:    rapid.IntRange(1, 3).Draw(t, "ratio"),
		Block:    rapid.SampledFrom([]int{1, 1, 2, 10, 30, 80, 200, 4096}).Draw(t, "block"),
	}
	nk := rapid.IntRange(2, 8).Draw(t, "nkeys")
	seen := map[string]bool{}
	for len(c.Keys) < nk {
		k := rapid.SampledFrom(vlib.Pool).Draw(t, "key")
		if !seen[k] {
			seen[k] = true
			c.Keys = append(c.Keys, vlib.Str(k))
			if sib, ok := vlib.Sibling[k]; ok && !seen[sib] && len(c.Keys) < nk && rapid.Bool().Draw(t, "sibling") {
				seen[sib] = true
				c.Keys = append(c.Keys, vlib.Str(sib))
			}
		}
	}
	for i := 0; i < 3; i++ {
		k := rapid.SampledFrom(vlib.Pool).Draw(t, "absent")
		if !seen[k] {
			seen[k] = true
			c.Absent = append(c.Absent, vlib.Str(k))
		}
	}
	c.VerBase = rapid.SampledFrom([]uint64{0, 0, 0, 8, 98, 1<<31 - 3, 1<<32 - 2, 1<<53 - 1, 1<<62 + 5}).Draw(t, "verBase")
	used := map[string]bool{}
	hi := c.VerBase // versions of later batches are >= versions of earlier ones
	nflush := 0
	nops := rapid.IntRange(2, 20).Draw(t, "nops")
	// size class (rare): tables of 8..20 MiB of incompressible data each, so that a level-0
	// compaction reads and writes tens of MiB
	bulk := rapid.IntRange(0, 399).Draw(t, "bulk") == 0
	if bulk {
		c.Bulk = true
		c.Block = rapid.SampledFrom([]int{4096, 1 << 20}).Draw(t, "bulkBlock")
		if len(c.Keys) > 3 {
			c.Keys = c.Keys[:3] // every (key, ts) is looked up after every step: keep that affordable
		}
		if len(c.Absent) > 1 {
			c.Absent = c.Absent[:1]
		}
		nops = rapid.IntRange(3, 7).Draw(t, "bulkNops")
	}
	for i := 0; i < nops; i++ {
		kinds := []string{"flush", "flush", "flush"}
		if nflush > 0 {
			kinds = append(kinds, "recover", "reflush")
			if withCompaction {
				kinds = append(kinds, "compact", "compact", "wm")
			}
		}
		o := lvOp{Op: rapid.SampledFrom(kinds).Draw(t, "op")}
		switch o.Op {
		case "flush":
			lo := hi
			if lo == c.VerBase {
				lo = c.VerBase + 1
			}
			if rapid.IntRange(0, 2).Draw(t, "straddle") != 0 && nflush > 0 {
				lo = hi + 1 // usually a batch starts above the previous one, sometimes it shares its first timestamp
			}
			if bulk {
				if nflush >= 4 {
					continue
				}
				cnt := rapid.IntRange(8, 20).Draw(t, "bulkN")
				k0 := rapid.IntRange(0, len(c.Keys)-1).Draw(t, "bulkK0")
				for j := 0; j < cnt; j++ {
					e := vlib.E{Key: c.Keys[(k0+j)%len(c.Keys)], Ts: lo + uint64(j)}
					if used[vlib.VKey(string(e.Key), e.Ts)] {
						continue
					}
					used[vlib.VKey(string(e.Key), e.Ts)] = true
					e.Val = vlib.Str(fmt.Sprintf("\x02bulk:%d:v%d.%d", 1<<20, i, j))
					o.Batch = append(o.Batch, e)
					if e.Ts > hi {
						hi = e.Ts
					}
				}
				if len(o.Batch) == 0 {
					continue
				}
				nflush++
				c.Ops = append(c.Ops, o)
				continue
			}
			span := rapid.IntRange(0, 5).Draw(t, "span")
			n := rapid.IntRange(1, 12).Draw(t, "n")
			// narrow batches (one or two keys) leave disjoint tables behind, which is what lets
			// L1 grow and compactions cascade to deeper levels
			from := c.Keys
			if rapid.IntRange(0, 2).Draw(t, "narrow") == 0 {
				i0 := rapid.IntRange(0, len(c.Keys)-1).Draw(t, "narrowAt")
				from = c.Keys[i0:min(len(c.Keys), i0+rapid.IntRange(1, 2).Draw(t, "narrowN"))]
			}
			for j := 0; j < n; j++ {
				k := string(rapid.SampledFrom(from).Draw(t, "k"))
				ts := lo + uint64(rapid.IntRange(0, span).Draw(t, "dts"))
				if used[vlib.VKey(k, ts)] {
					continue
				}
				used[vlib.VKey(k, ts)] = true
				e := vlib.E{Key: vlib.Str(k), Ts: ts, Tomb: rapid.IntRange(0, 3).Draw(t, "tomb") == 0}
				if !e.Tomb {
					pad := rapid.SampledFrom([]int{0, 0, 3, 20, 60}).Draw(t, "pad")
					e.Val = vlib.Str(fmt.Sprintf("v%d.%d.%s", i, j, string(bytes.Repeat([]byte{'x'}, pad))))
					if rapid.IntRange(0, 9).Draw(t, "emptyval") == 0 {
						e.Val = ""
					}
				}
				o.Batch = append(o.Batch, e)
				if ts > hi {
					hi = ts
				}
			}
			if len(o.Batch) == 0 {
				continue
			}
			nflush++
		case "reflush":
			o.Ref = rapid.IntRange(0, 100).Draw(t, "ref")
		case "wm":
			o.W = c.VerBase + uint64(rapid.IntRange(0, int(hi-c.VerBase)+2).Draw(t, "w"))
		}
		c.Ops = append(c.Ops, o)
	}
	return c
}

type lvRun struct {
	v        *originium.VerifLevels
	flushed  []vlib.E // every entry ever flushed
	batches  [][]vlib.E
	maxTs    uint64
	wm       uint64
	compacts int
	recovers int
}

func eqSem(e types.Entry, ok bool, r vlib.E, rok bool) bool {
	// observable answer: value or not-found (tombstone == not-found, G2)
	gf := ok && !e.Tombstone
	rf := rok && !r.Tomb
	if gf != rf {
		return false
	}
	return !gf || canonVal(e.Value) == string(r.Val)
}

func eqExact(e types.Entry, ok bool, r vlib.E, rok bool) bool {
	if ok != rok {
		return false
	}
	if !ok {
		return true
	}
	return e.Key == r.VK() && e.Tombstone == r.Tomb && canonVal(e.Value) == string(r.Val) && e.Version == int64(r.Ts)
}

func physical(v *originium.VerifLevels) ([]vlib.E, []originium.VerifTable) {
	tabs := v.Tables()
	var out []vlib.E
	for _, t := range tabs {
		for _, e := range t.Entries {
			k, ts := vlib.SplitV(e.Key)
			out = append(out, vlib.E{Key: vlib.Str(k), Ts: ts, Val: vlib.Str(canonVal(e.Value)), Tomb: e.Tombstone})
		}
	}
	return out, tabs
}

type lvResult struct {
	kind     string // which property's oracle failed: "C10" / "C09" / "C16"
	msg      string
	panicked bool
	classes  map[string]bool
}

func (r *lvResult) class(c string) { r.classes[c] = true }

// runLv interprets a case. mode "C10": lookups vs brute force over what the tables
// physically hold; mode "C09": lookups at ts >= watermark before vs after
// compaction/recovery, anchored on the reference over everything flushed.
func runLv(c lvCase, dir string, mode string) (res lvResult) {
	res.classes = map[string]bool{}
	if c.Bulk {
		res.class("tables_of_many_MiB")
	}
	_ = os.RemoveAll(dir)
	if err := os.MkdirAll(dir, 0o755); err != nil {
		res.kind, res.msg = "harness", err.Error()
		return
	}
	defer os.RemoveAll(dir)
	curOp := ""
	defer func() {
		if r := recover(); r != nil {
			// a panic belongs to the property whose mechanism was running
			res.kind, res.msg = "C10", fmt.Sprintf("panic during %s: %v", curOp, r)
			if curOp == "compact" {
				res.kind = "C09"
			}
			res.panicked = true
		}
	}()
	st := &lvRun{v: originium.VerifNewLevels(dir, c.L0Target, c.Ratio, c.Block)}
	defer func() { st.v.Stop() }()
	allKeys := append(append([]vlib.Str{}, c.Keys...), c.Absent...)

	lookupAll := func(from uint64) map[string]struct {
		e  types.Entry
		ok bool
	} {
		out := map[string]struct {
			e  types.Entry
			ok bool
		}{}
		for _, k := range allKeys {
			if from+1 < c.VerBase {
				from = c.VerBase - 1 // nothing is stored below the base: one probe below it is enough
			}
			for ts := from; ts <= st.maxTs+1; ts++ {
				e, ok := st.v.Lookup(string(k), ts)
				out[vlib.VKey(string(k), ts)] = struct {
					e  types.Entry
					ok bool
				}{e, ok}
			}
		}
		return out
	}
	// C10 oracle
	checkC10 := func(step int, what string) bool {
		phys, tabs := physical(st.v)
		blocks := st.v.BlockCount()
		multiBlock := false
		for _, b := range blocks {
			if b >= 2 {
				multiBlock = true
			}
		}
		if len(tabs) >= 2 {
			res.class("ge2_tables")
		}
		if multiBlock {
			res.class("multi_block_table")
		}
		// C16 side: every stored user key must pass its own table's filter
		for i, t := range tabs {
			for _, e := range t.Entries {
				uk, _ := vlib.SplitV(e.Key)
				if !st.v.FilterContains(i, uk) {
					res.kind, res.msg = "C16", fmt.Sprintf("step %d (%s): bloom filter of table L%d-%d denies stored key %q", step, what, t.Level, t.Idx, uk)
					return false
				}
			}
		}
		for _, k := range allKeys {
			ts0 := uint64(0)
			if c.VerBase > 1 {
				ts0 = c.VerBase - 1
			}
			for ts := ts0; ts <= st.maxTs+1; ts++ {
				e, ok := st.v.Lookup(string(k), ts)
				r, rok := vlib.Best(phys, string(k), ts)
				if !eqExact(e, ok, r, rok) {
					res.kind = "C10"
					res.msg = fmt.Sprintf("step %d (%s): Lookup(%q, ts=%d) = (%q val=%q tomb=%v, found=%v); brute force over the %d tables' entries = (%q val=%q tomb=%v, found=%v)",
						step, what, string(k), ts, e.Key, canonVal(e.Value), e.Tombstone, ok, len(tabs), r.VK(), string(r.Val), r.Tomb, rok)
					return false
				}
				if rok {
					// classify: newer version lives in a different table than the first one holding the key
					first := -1
					where := -1
					for ti, t := range tabs {
						for _, pe := range t.Entries {
							uk, pts := vlib.SplitV(pe.Key)
							if uk == string(k) {
								if first < 0 {
									first = ti
								}
								if pts == r.Ts && where < 0 {
									where = ti
								}
							}
						}
					}
					if first >= 0 && where >= 0 && where != first {
						res.class("answer_not_in_first_table_with_key")
					}
				}
			}
		}
		return true
	}

	for step, o := range c.Ops {
		curOp = o.Op
		switch o.Op {
		case "flush", "reflush":
			batch := o.Batch
			if o.Op == "reflush" {
				if len(st.batches) == 0 {
					continue
				}
				batch = st.batches[o.Ref%len(st.batches)]
				res.class("identical_reflush")
			}
			if err := st.v.Flush(toEntries(batch)); err != nil {
				res.kind, res.msg = "C10", fmt.Sprintf("step %d: flush failed: %v", step, err)
				return
			}
			st.flushed = append(st.flushed, canonBatch(batch)...)
			if o.Op == "flush" {
				st.batches = append(st.batches, batch)
			}
			for _, e := range batch {
				if e.Ts > st.maxTs {
					st.maxTs = e.Ts
				}
			}
			if mode == "C10" {
				if st.compacts == 0 {
					// nothing may be lost or invented by a flush (+ recover)
					phys, _ := physical(st.v)
					if m := sameMultiset(phys, st.flushed); m != "" {
						res.kind, res.msg = "C10", fmt.Sprintf("step %d: tables do not hold what was flushed: %s", step, m)
						return
					}
				}
				if !checkC10(step, o.Op) {
					return
				}
			}
		case "wm":
			if o.W > st.wm {
				st.wm = o.W
				st.v.SetWatermark(o.W)
			}
		case "compact", "recover":
			var before map[string]struct {
				e  types.Entry
				ok bool
			}
			if mode == "C09" {
				before = lookupAll(st.wm)
			}
			nb := tableSig(st.v.Tables())
			if o.Op == "compact" {
				st.v.CheckAndCompact()
				phys, tabs := physical(st.v)
				if tableSig(tabs) != nb {
					st.compacts++
					res.class("compaction_happened")
					for _, t := range tabs {
						if t.Level >= 2 {
							res.class("level_ge2")
						}
					}
				}
				if mode == "C09" {
					// nothing invented or cross-wired
					for _, p := range phys {
						okp := false
						for _, f := range st.flushed {
							if f.Key == p.Key && f.Ts == p.Ts && f.Tomb == p.Tomb && f.Val == p.Val {
								okp = true
								break
							}
						}
						if !okp {
							res.kind, res.msg = "C09", fmt.Sprintf("step %d: after compaction a table holds %q=%q tomb=%v, which was never flushed like that", step, p.VK(), string(p.Val), p.Tomb)
							return
						}
					}
				}
			} else {
				nv, _ := st.v.Recover()
				st.v = nv
				st.recovers++
				res.class("recovered")
			}
			if mode == "C09" {
				after := lookupAll(st.wm)
				for q, b := range before {
					a := after[q]
					k, ts := vlib.SplitV(q)
					r, rok := vlib.Best(st.flushed, k, ts)
					rightBefore := eqSem(b.e, b.ok, r, rok)
					rightAfter := eqSem(a.e, a.ok, r, rok)
					if rightBefore && !rightAfter {
						res.kind = "C09"
						res.msg = fmt.Sprintf("step %d (%s, watermark %d): Lookup(%q, ts=%d) was (%q val=%q tomb=%v found=%v) and is now (%q val=%q tomb=%v found=%v); reference over everything flushed: (%q val=%q tomb=%v found=%v)",
							step, o.Op, st.wm, k, ts, b.e.Key, canonVal(b.e.Value), b.e.Tombstone, b.ok, a.e.Key, canonVal(a.e.Value), a.e.Tombstone, a.ok, r.VK(), string(r.Val), r.Tomb, rok)
						return
					}
					if !rightBefore {
						res.class("query_wrong_before_step_not_judged")
					}
				}
				// classes: tombstone shadowing an older value / watermark strictly between two versions
				for _, k := range c.Keys {
					var vs []vlib.E
					for _, f := range st.flushed {
						if f.Key == k {
							vs = append(vs, f)
						}
					}
					sort.Slice(vs, func(i, j int) bool { return vs[i].Ts < vs[j].Ts })
					for i := 1; i < len(vs); i++ {
						if vs[i].Tomb && !vs[i-1].Tomb && o.Op == "compact" && st.compacts > 0 {
							res.class("tombstone_over_older_value")
						}
						if vs[i-1].Ts < st.wm && st.wm < vs[i].Ts && o.Op == "compact" && st.compacts > 0 {
							res.class("watermark_between_versions")
						}
					}
				}
			} else if !checkC10(step, o.Op) {
				return
			}
		}
	}
	if mode == "C10" && len(st.flushed) > 0 {
		if !checkC10(len(c.Ops), "end") {
			return
		}
	}
	return
}

// tableSig names the set of table files; it changes iff a compaction ran.
func tableSig(tabs []originium.VerifTable) string {
	var n []string
	for _, t := range tabs {
		n = append(n, fmt.Sprintf("%d-%d", t.Level, t.Idx))
	}
	sort.Strings(n)
	return fmt.Sprint(n)
}

func sameMultiset(a, b []vlib.E) string {
	cnt := map[string]int{}
	key := func(e vlib.E) string { return fmt.Sprintf("%q|%d|%q|%v", string(e.Key), e.Ts, string(e.Val), e.Tomb) }
	for _, e := range a {
		cnt[key(e)]++
	}
	for _, e := range b {
		cnt[key(e)]--
	}
	for k, n := range cnt {
		if n != 0 {
			return fmt.Sprintf("entry %s occurs %+d times too often in the tables", k, n)
		}
	}
	return ""
}

func classList(m map[string]bool) []string {
	var out []string
	for k := range m {
		out = append(out, k)
	}
	sort.Strings(out)
	return out
}

func scratchDir(t *testing.T) string {
	d := os.Getenv("VERIF_SCRATCH")
	if d == "" {
		d = t.TempDir()
	}
	return filepath.Join(d, "lv")
}

func lvTest(t *testing.T, prop, test, mode string, withCompaction bool) {
	rec := vlib.For(prop, test)
	var rec16 *vlib.Rec
	dir := scratchDir(t)
	report := func(res lvResult, cj []byte, fatal func(string, ...any)) {
		switch res.kind {
		case "":
			return
		case "harness":
			rec.Note("harness: " + res.msg)
			return
		case "C16":
			if prop != "C16" {
				// the bloom-filter side check belongs to C16; here it only ends the case
				rec.Count("foreign_C16_discrepancy", 1)
				return
			}
		default:
			if res.kind != prop {
				rec.Count("foreign_"+res.kind+"_discrepancy", 1)
				return
			}
		}
		kind := map[string]string{"C10": "lookup_vs_bruteforce", "C09": "compaction_changed_answer", "C16": "bloom_false_negative_in_table"}[res.kind]
		if res.panicked {
			kind = "panic_in_levels"
		}
		rec.Violation(kind, res.msg, cj, nil)
		fatal("%s", res.msg)
	}
	_ = rec16
	nontrivial := func(res lvResult) bool {
		switch prop {
		case "C10":
			return res.classes["ge2_tables"] && res.classes["multi_block_table"] && res.classes["answer_not_in_first_table_with_key"]
		case "C09":
			return res.classes["compaction_happened"] && (res.classes["tombstone_over_older_value"] || res.classes["watermark_between_versions"])
		default:
			return res.classes["ge2_tables"] || res.classes["recovered"]
		}
	}
	if rc := vlib.ReplayCase(); rc != nil {
		var c lvCase
		if err := json.Unmarshal(rc, &c); err != nil {
			t.Fatalf("bad replay case: %v", err)
		}
		report(runLv(c, dir, mode), rc, t.Fatalf)
		return
	}
	rapid.Check(t, func(rt *rapid.T) {
		c := genLvCase(rt, withCompaction)
		cj := vlib.JSON(c)
		rec.Begin(cj)
		res := runLv(c, dir, mode)
		rec.End(cj, res.kind == "" && nontrivial(res), classList(res.classes)...)
		report(res, cj, rt.Fatalf)
	})
}

func TestC10(t *testing.T) { lvTest(t, "C10", "TestC10", "C10", true) }

// TestC10Twin runs two independent stores in the same process at the same time (two goroutines,
// two directories): whatever the tables of one store hold must be found whatever the other does.
func TestC10Twin(t *testing.T) {
	rec := vlib.For("C10", "TestC10Twin")
	base := scratchDir(t)
	type twin struct {
		A lvCase `json:"a"`
		B lvCase `json:"b"`
	}
	one := func(tw twin, cj []byte, fatal func(string, ...any)) {
		rec.Begin(cj)
		var ra, rb lvResult
		var wg sync.WaitGroup
		wg.Add(2)
		go func() { defer wg.Done(); ra = runLv(tw.A, base+"-twinA", "C10") }()
		go func() { defer wg.Done(); rb = runLv(tw.B, base+"-twinB", "C10") }()
		wg.Wait()
		bad := ra
		if bad.kind != "C10" {
			bad = rb
		}
		rec.End(cj, bad.kind == "" && (ra.classes["ge2_tables"] || rb.classes["ge2_tables"]), "two_stores_in_one_process")
		if bad.kind == "C10" {
			kind := "lookup_vs_bruteforce"
			if bad.panicked {
				kind = "panic_in_levels"
			}
			rec.Violation(kind, "with a second store active in the same process: "+bad.msg, cj, nil)
			fatal("%s", bad.msg)
		}
	}
	if rc := vlib.ReplayCase(); rc != nil {
		var tw twin
		if err := json.Unmarshal(rc, &tw); err != nil {
			t.Fatalf("bad replay case: %v", err)
		}
		for i := 0; i < 20; i++ {
			one(tw, rc, t.Fatalf)
		}
		return
	}
	rapid.Check(t, func(rt *rapid.T) {
		tw := twin{A: genLvCase(rt, true), B: genLvCase(rt, true)}
		one(tw, vlib.JSON(tw), rt.Fatalf)
	})
}
func TestC09(t *testing.T)       { lvTest(t, "C09", "TestC09", "C09", true) }
func TestC16Levels(t *testing.T) { lvTest(t, "C16", "TestC16Levels", "C10", true) }

// ---- C10(b): exhaustive small universe -------------------------------------
//
// 3 keys whose raw byte order differs from their key order (one of them contains '@' and
// extends another key) x versions 1..4: every
// subset of the 12 possible entries, every split into two version-ordered tables,
// block size one entry / all, with and without recovery; all (key, ts) queries
// incl. absent keys before / between / after.

var exhKeys = []string{"a", "a!", "a@1"}
var exhQueryKeys = []string{"A", "a", "a ", "a!", "a#", "a@", "a@1", "a@1@", "b"}

const exhLayouts = 4096 * 5 * 2 * 2 * 2

// the four versions of a layout: consecutive small ones, or ones whose decimal texts are
// prefixes of each other ("1" of "10" and "12"), so that a versioned key can be a proper
// prefix of its neighbour in a block
var exhVersions = [2][4]uint64{{1, 2, 3, 4}, {1, 2, 10, 12}}
var exhQueryTs = [2][]uint64{{0, 1, 2, 3, 4, 5}, {0, 1, 2, 3, 9, 10, 11, 12, 13}}

type exhCase struct {
	Layout  int  `json:"layout"`
	Mask    int  `json:"subset_mask"`
	Split   int  `json:"split_after_version"`
	Block   int  `json:"block"`
	Recover bool `json:"recover"`
	VerSet  int  `json:"version_set"`
}

func exhDecode(l int) exhCase {
	c := exhCase{Layout: l}
	c.Mask = l % 4096
	l /= 4096
	c.Split = l % 5
	l /= 5
	c.Block = []int{1, 4096}[l%2]
	l /= 2
	c.Recover = l%2 == 1
	l /= 2
	c.VerSet = l % 2
	return c
}

func runExh(c exhCase, dir string) (msg string, nontrivial bool) {
	_ = os.RemoveAll(dir)
	if err := os.MkdirAll(dir, 0o755); err != nil {
		return "", false
	}
	defer os.RemoveAll(dir)
	defer func() {
		if r := recover(); r != nil {
			msg = fmt.Sprintf("panic: %v", r)
		}
	}()
	v := originium.VerifNewLevels(dir, 100, 10, c.Block)
	defer func() { v.Stop() }()
	var t1, t2, all []vlib.E
	for ki, k := range exhKeys {
		for ver := 1; ver <= 4; ver++ {
			if c.Mask&(1<<(ki*4+ver-1)) == 0 {
				continue
			}
			e := vlib.E{Key: vlib.Str(k), Ts: exhVersions[c.VerSet][ver-1], Val: vlib.Str(fmt.Sprintf("%s.%d", k, ver)), Tomb: (ki+ver)%3 == 0}
			if e.Tomb {
				e.Val = ""
			}
			all = append(all, e)
			if ver <= c.Split {
				t1 = append(t1, e)
			} else {
				t2 = append(t2, e)
			}
		}
	}
	ntab := 0
	for _, b := range [][]vlib.E{t1, t2} {
		if len(b) > 0 {
			if err := v.Flush(toEntries(b)); err != nil {
				return "flush: " + err.Error(), false
			}
			ntab++
		}
	}
	if c.Recover {
		v, _ = v.Recover()
	}
	for _, k := range exhQueryKeys {
		for _, ts := range exhQueryTs[c.VerSet] {
			e, ok := v.Lookup(k, ts)
			r, rok := vlib.Best(all, k, ts)
			if !eqExact(e, ok, r, rok) {
				return fmt.Sprintf("Lookup(%q, ts=%d) = (%q val=%q tomb=%v, found=%v); brute force = (%q val=%q tomb=%v, found=%v)",
					k, ts, e.Key, e.Value, e.Tombstone, ok, r.VK(), string(r.Val), r.Tomb, rok), false
			}
		}
	}
	return "", ntab == 2 && c.Block == 1 && len(all) >= 4
}

func TestC10Exh(t *testing.T) {
	rec := vlib.For("C10", "TestC10Exh")
	dir := scratchDir(t) + "-exh"
	one := func(c exhCase, fatal func(string, ...any)) {
		cj := vlib.JSON(c)
		rec.Begin(cj)
		msg, nt := runExh(c, dir)
		rec.End(cj, nt, "exhaustive_small_universe")
		if msg != "" {
			rec.Violation("lookup_vs_bruteforce_small_universe", msg, cj, nil)
			fatal("%s", msg)
		}
	}
	if rc := vlib.ReplayCase(); rc != nil {
		var c exhCase
		if err := json.Unmarshal(rc, &c); err != nil {
			t.Fatalf("bad replay case: %v", err)
		}
		one(exhDecode(c.Layout), t.Fatalf)
		return
	}
	if os.Getenv("VERIF_EXH") == "all" {
		n := vlib.IntEnv("VERIF_NSHARDS", 1)
		s := vlib.IntEnv("VERIF_SHARD", 0)
		for l := s; l < exhLayouts; l += n {
			one(exhDecode(l), t.Fatalf)
		}
		rec.Count("exhaustive_layouts_enumerated", int64((exhLayouts-s+n-1)/n))
		return
	}
	rapid.Check(t, func(rt *rapid.T) {
		one(exhDecode(rapid.IntRange(0, exhLayouts-1).Draw(rt, "layout")), rt.Fatalf)
	})
}
