//go:build verif

// Package crash is engine E2: crash-point enumeration with child processes.
// The parent (this test) draws a workload with rapid, runs it in a child
// built with the file-system interposer in snapshot mode (one image of the
// directory immediately before EVERY mutating file-system operation of the
// run), recovers every image in a fresh child process and judges what it reads
// against the log of acknowledged transactions. C03 C04 C14.
package crash

import (
	"bytes"
	"crypto/sha256"
	"encoding/base64"
	"encoding/hex"
	"encoding/json"
	"fmt"
	"os"
	"os/exec"
	"path/filepath"
	"sort"
	"strings"
	"testing"
	"time"

	"pgregory.net/rapid"

	"verif/harness/crashlib"
	"verif/harness/vlib"
)

func TestMain(m *testing.M) { os.Exit(vlib.Main(m)) }

// ---- generated case ---------------------------------------------------------

type Case struct {
	W           crashlib.Workload `json:"workload"`
	Followup    []crashlib.WTxn   `json:"followup"`               // run after recovery (C03 d)
	FollowEvery int               `json:"followup_every"`         // follow-up on every n-th image
	NestedAt    []int             `json:"nested_at"`              // per-mille positions of images whose recovery is itself crashed at every operation
	KillAt      []int             `json:"kill_at"`                // per-mille positions re-run with a real SIGKILL
	CutSeeds    []int             `json:"cut_seeds"`              // C14: drawn cut positions (per-mille of the unsynced tail)
	Sweep       bool              `json:"length_sweep,omitempty"` // size class: consecutive value lengths
	Huge        bool              `json:"huge_record"`            // size class: one value of several MiB
}

func genCfg(t *rapid.T) crashlib.Cfg {
	return crashlib.Cfg{
		SkipListMaxLevel: rapid.SampledFrom([]int{0, 1, 4, 9}).Draw(t, "slMax"),
		SkipListP:        rapid.SampledFrom([]float64{0, 0.25, 0.5}).Draw(t, "slP"),
		MemThreshold:     rapid.SampledFrom([]int{60, 100, 150, 250, 400, 400, 2000, 20000}).Draw(t, "mem"),
		ImmBuf:           rapid.SampledFrom([]int{0, 1, 1, 2, 3}).Draw(t, "immBuf"),
		Block:            rapid.SampledFrom([]int{1, 60, 60, 4096}).Draw(t, "block"),
		L0Target:         rapid.SampledFrom([]int{1, 1, 2}).Draw(t, "l0"),
		Ratio:            rapid.SampledFrom([]int{1, 1, 2}).Draw(t, "ratio"),
	}
}

// genTxns keeps track of which keys exist so that deletes only hit existing
// keys ("reads as new" is then unambiguous) and numbers transactions globally.
func genTxns(t *rapid.T, nk, n, firstNo int, exists map[int]bool, multi bool, label string) []crashlib.WTxn {
	var out []crashlib.WTxn
	for i := 0; i < n; i++ {
		maxOps := 4
		nops := rapid.IntRange(1, maxOps).Draw(t, label+"nops")
		if multi && nops < 2 {
			nops = rapid.IntRange(2, 5).Draw(t, label+"nops2")
		}
		tx := crashlib.WTxn{No: firstNo + i}
		// now and then a large transaction: many keys and/or values of several KiB, so that its
		// wal batch is far larger than any internal buffer or block size
		big := rapid.IntRange(0, 7).Draw(t, label+"big") == 0
		vlens := []int{0, 0, 5, 20, 60, 120}
		if big {
			nops = rapid.IntRange(6, 30).Draw(t, label+"bignops")
			vlens = []int{60, 300, 700, 1500, 5000}
		}
		for j := 0; j < nops; j++ {
			k := rapid.IntRange(0, nk-1).Draw(t, label+"k")
			del := exists[k] && rapid.IntRange(0, 4).Draw(t, label+"del") == 0
			o := crashlib.WOp{K: k, Del: del}
			if !del {
				o.VLen = rapid.SampledFrom(vlens).Draw(t, label+"vlen")
				if rapid.IntRange(0, 2).Draw(t, label+"jitter") == 0 {
					// any length, not only the classes: record sizes take every residue
					o.VLen = rapid.IntRange(0, 800).Draw(t, label+"vlenAny")
				}
			}
			tx.Ops = append(tx.Ops, o)
		}
		for k, v := range tx.Final() {
			exists[k] = v != nil
		}
		out = append(out, tx)
	}
	return out
}

func genCase(t *rapid.T, multi bool) Case {
	c := Case{W: crashlib.Workload{Cfg: genCfg(t), CloseAtEnd: rapid.Bool().Draw(t, "closeAtEnd")}}
	nk := rapid.IntRange(6, 12).Draw(t, "nkeys")
	if rapid.IntRange(0, 2).Draw(t, "manyKeys") == 0 {
		nk = rapid.IntRange(12, 36).Draw(t, "nkeysMany")
	}
	seen := map[string]bool{}
	for len(c.W.Keys) < nk {
		k := rapid.SampledFrom(vlib.Pool).Draw(t, "key")
		if !seen[k] {
			seen[k] = true
			c.W.Keys = append(c.W.Keys, vlib.Str(k))
			if sib, ok := vlib.Sibling[k]; ok && !seen[sib] && len(c.W.Keys) < nk && rapid.Bool().Draw(t, "sibling") {
				seen[sib] = true
				c.W.Keys = append(c.W.Keys, vlib.Str(sib))
			}
		}
	}
	exists := map[int]bool{}
	n := rapid.IntRange(12, 45).Draw(t, "ntxns")
	if rapid.IntRange(0, 19).Draw(t, "hugeRecord") == 0 {
		// size class: a few transactions, one of them with a value of several MiB (one wal record
		// larger than any buffer, block or default threshold); no flush unless the value forces it
		c.W.Cfg.MemThreshold = rapid.SampledFrom([]int{0, 64 << 20}).Draw(t, "hugeMem")
		n = rapid.IntRange(3, 6).Draw(t, "hugeN")
		c.W.Txns = genTxns(t, nk, n, 1, exists, false, "w")
		at := rapid.IntRange(0, n-1).Draw(t, "hugeAt")
		c.W.Txns[at].Ops[0].Del = false
		c.W.Txns[at].Ops[0].VLen = rapid.SampledFrom([]int{1 << 20, 5 << 20, 9 << 20}).Draw(t, "hugeLen")
		for k, v := range c.W.Txns[at].Final() {
			exists[k] = v != nil
		}
		c.Huge = true
	} else if !multi && rapid.IntRange(0, 7).Draw(t, "lengthSweep") == 0 {
		// size class: single-key transactions whose value lengths sweep a range of consecutive
		// lengths, so that the sizes of the wal records (and of the blocks built from them) pass
		// through every residue modulo 256 / every alignment within a few workloads
		n = rapid.IntRange(32, 64).Draw(t, "sweepN")
		start := rapid.IntRange(150, 600).Draw(t, "sweepStart")
		k := rapid.IntRange(0, nk-1).Draw(t, "sweepKey")
		same := rapid.Bool().Draw(t, "sweepSameKey")
		for i := 0; i < n; i++ {
			if !same {
				k = rapid.IntRange(0, nk-1).Draw(t, "sweepK")
			}
			c.W.Txns = append(c.W.Txns, crashlib.WTxn{No: 1 + i, Ops: []crashlib.WOp{{K: k, VLen: start + i}}})
			exists[k] = true
		}
		c.Sweep = true
	} else {
		c.W.Txns = genTxns(t, nk, n, 1, exists, multi, "w")
	}
	c.Followup = genTxns(t, nk, rapid.IntRange(2, 6).Draw(t, "nfollow"), 1000, exists, false, "f")
	c.FollowEvery = rapid.IntRange(3, 9).Draw(t, "followEvery")
	for i := 0; i < 6; i++ {
		c.NestedAt = append(c.NestedAt, rapid.IntRange(0, 999).Draw(t, "nestedAt"))
	}
	for i := 0; i < 12; i++ {
		c.KillAt = append(c.KillAt, rapid.IntRange(0, 999).Draw(t, "killAt"))
	}
	for i := 0; i < 8; i++ {
		c.CutSeeds = append(c.CutSeeds, rapid.IntRange(0, 1000).Draw(t, "cut"))
	}
	return c
}

// ---- child processes --------------------------------------------------------

type job struct {
	Mode     string            `json:"mode"`
	Dir      string            `json:"dir"`
	Workload crashlib.Workload `json:"workload"`
	AckPath  string            `json:"ack_path"`
	OutPath  string            `json:"out_path"`
	SnapDir  string            `json:"snap_dir"`
	MaxSnaps int               `json:"max_snaps"`
	KillAt   int               `json:"kill_at"`
	OpLog    string            `json:"op_log"`
}

type childOut struct {
	Opened   bool           `json:"opened"`
	Reads    map[int]string `json:"reads"`
	Followup bool           `json:"followup"`
	Ops      int            `json:"ops"`
	OpenOps  int            `json:"open_ops"`
}

type childRes struct {
	exit     int
	signaled bool
	stderr   string
	out      *childOut
	timedOut bool
}

func vworker() string {
	p := os.Getenv("VERIF_VWORKER")
	if p == "" {
		p = "/dev/shm/vworker"
	}
	return p
}

var jobSeq int

func runChild(scratch string, j job, timeout time.Duration) childRes {
	jobSeq++
	jp := filepath.Join(scratch, fmt.Sprintf("job%d.json", jobSeq%4))
	_ = os.WriteFile(jp, vlib.JSON(j), 0o644)
	if j.OutPath != "" {
		_ = os.Remove(j.OutPath)
	}
	cmd := exec.Command(vworker(), jp)
	var eb bytes.Buffer
	cmd.Stderr = &eb
	cmd.Env = append(os.Environ(), "GOMAXPROCS=2", "GOTRACEBACK=single")
	res := childRes{}
	if err := cmd.Start(); err != nil {
		res.exit = -100
		res.stderr = err.Error()
		return res
	}
	done := make(chan error, 1)
	go func() { done <- cmd.Wait() }()
	select {
	case <-done:
	case <-time.After(timeout):
		_ = cmd.Process.Kill()
		<-done
		res.timedOut = true
	}
	res.exit = cmd.ProcessState.ExitCode()
	if res.exit == -1 {
		res.signaled = true
	}
	res.stderr = eb.String()
	if len(res.stderr) > 3000 {
		res.stderr = res.stderr[:1500] + "\n...\n" + res.stderr[len(res.stderr)-1500:]
	}
	if j.OutPath != "" {
		if b, err := os.ReadFile(j.OutPath); err == nil {
			var o childOut
			if json.Unmarshal(b, &o) == nil {
				res.out = &o
			}
		}
	}
	return res
}

// ---- images -----------------------------------------------------------------

type fileLen struct {
	Synced  int64 `json:"synced"`
	Written int64 `json:"written"`
}

type imageMeta struct {
	Seq     int                `json:"seq"`
	Op      string             `json:"op"`
	Path    string             `json:"path"`
	Path2   string             `json:"path2"`
	AckOff  int64              `json:"ack_off"`
	Files   map[string]fileLen `json:"files"`
	Phase   string             `json:"phase"`
	LastOps []string           `json:"last_ops"`
}

type image struct {
	dir  string // .../<seq>/db
	meta imageMeta
}

func loadImages(snapDir string) []image {
	ents, _ := os.ReadDir(snapDir)
	var out []image
	for _, e := range ents {
		b, err := os.ReadFile(filepath.Join(snapDir, e.Name(), "meta.json"))
		if err != nil {
			continue
		}
		var m imageMeta
		if json.Unmarshal(b, &m) != nil {
			continue
		}
		out = append(out, image{dir: filepath.Join(snapDir, e.Name(), "db"), meta: m})
	}
	sort.Slice(out, func(i, j int) bool { return out[i].meta.Seq < out[j].meta.Seq })
	return out
}

func copyDir(src, dst string) error {
	_ = os.RemoveAll(dst)
	if err := os.MkdirAll(dst, 0o755); err != nil {
		return err
	}
	ents, err := os.ReadDir(src)
	if err != nil {
		return err
	}
	for _, e := range ents {
		b, err := os.ReadFile(filepath.Join(src, e.Name()))
		if err != nil {
			return err
		}
		if err := os.WriteFile(filepath.Join(dst, e.Name()), b, 0o644); err != nil {
			return err
		}
	}
	return nil
}

func packDir(dir string) map[string]string {
	out := map[string]string{}
	ents, _ := os.ReadDir(dir)
	for _, e := range ents {
		if b, err := os.ReadFile(filepath.Join(dir, e.Name())); err == nil {
			out[e.Name()] = base64.StdEncoding.EncodeToString(b)
		}
	}
	return out
}

func unpackDir(files map[string]string, dst string) error {
	_ = os.RemoveAll(dst)
	if err := os.MkdirAll(dst, 0o755); err != nil {
		return err
	}
	for n, b64 := range files {
		b, err := base64.StdEncoding.DecodeString(b64)
		if err != nil {
			return err
		}
		if err := os.WriteFile(filepath.Join(dst, filepath.Base(n)), b, 0o644); err != nil {
			return err
		}
	}
	return nil
}

func fileClass(name string) string {
	switch {
	case strings.HasSuffix(name, ".log"):
		return "wal"
	case strings.HasSuffix(name, ".db"):
		if strings.HasPrefix(name, "0-") {
			return "table_l0"
		}
		return "table_l1plus"
	case name == "" || name == ".":
		return "dir"
	default:
		return "temp"
	}
}

// ---- the replayable unit: one crash image + what may be read from it -------------

type Replay struct {
	Keys     []vlib.Str        `json:"keys"`
	Cfg      crashlib.Cfg      `json:"cfg"`
	Files    map[string]string `json:"files"` // base name -> base64 content (the crash image, after any cut)
	Runs     []replayRun       `json:"runs"`  // transactions and ack prefixes that led to the image
	Followup []crashlib.WTxn   `json:"followup,omitempty"`
	Meta     imageMeta         `json:"image"`
	Cut      string            `json:"cut,omitempty"`
	Mode     string            `json:"mode"` // C03 | C04 | C14
	Origin   string            `json:"origin"`
	Again    int               `json:"again,omitempty"` // abandon the recovered store and Open again, this many times
}

type replayRun struct {
	Txns []crashlib.WTxn     `json:"txns"`
	Ack  []crashlib.AckEvent `json:"ack"`
}

func (r Replay) runs() []crashlib.Run {
	var out []crashlib.Run
	for _, x := range r.Runs {
		out = append(out, crashlib.Run{Txns: x.Txns, Ack: x.Ack})
	}
	return out
}

var lastHarnessProblem string

type finding struct {
	kind string
	msg  string
}

// ---- batch recovery ---------------------------------------------------------

type recoverJob struct {
	ID       int               `json:"id"`
	SrcDir   string            `json:"src_dir"`
	WorkDir  string            `json:"work_dir"`
	Cuts     map[string]int64  `json:"cuts,omitempty"`
	Workload crashlib.Workload `json:"workload"`
	AckPath  string            `json:"ack_path,omitempty"`
	SnapDir  string            `json:"snap_dir,omitempty"`
	MaxSnaps int               `json:"max_snaps,omitempty"`
	Again    int               `json:"again,omitempty"`
}

type recoverResult struct {
	ID       int            `json:"id"`
	Done     bool           `json:"done"`
	Opened   bool           `json:"opened"`
	Reads    map[int]string `json:"reads"`
	Followup bool           `json:"followup"`
	Reads2   map[int]string `json:"reads2"`
	Panic    string         `json:"panic"`
	Where    string         `json:"where"`
	Ops      int            `json:"ops"`
	Again    int            `json:"again"`
	// filled by the parent
	died   bool
	hung   bool
	stderr string
}

// runBatch recovers the jobs in as few child processes as possible: one worker
// takes them in turn; if it dies (panic in a background goroutine, fatal error)
// the death is charged to the job in progress and a new worker continues.
func runBatch(scratch string, jobs []recoverJob) map[int]*recoverResult {
	results := map[int]*recoverResult{}
	rest := jobs
	for len(rest) > 0 {
		outPath := filepath.Join(scratch, "batch-out.jsonl")
		_ = os.Remove(outPath)
		jp := filepath.Join(scratch, "batch.json")
		_ = os.WriteFile(jp, vlib.JSON(map[string]any{"jobs": rest, "out_path": outPath}), 0o644)
		cmd := exec.Command(vworker(), "batch", jp)
		var eb bytes.Buffer
		cmd.Stderr = &eb
		cmd.Env = append(os.Environ(), "GOMAXPROCS=2", "GOTRACEBACK=all")
		if err := cmd.Start(); err != nil {
			return results
		}
		done := make(chan error, 1)
		go func() { done <- cmd.Wait() }()
		timedOut := false
		select {
		case <-done:
		case <-time.After(time.Duration(60+len(rest)*2) * time.Second):
			_ = cmd.Process.Kill()
			<-done
			timedOut = true
		}
		started := -1
		if b, err := os.ReadFile(outPath); err == nil {
			for _, line := range bytes.Split(b, []byte("\n")) {
				if len(line) == 0 {
					continue
				}
				var st struct {
					Start *int `json:"start"`
				}
				if json.Unmarshal(line, &st) == nil && st.Start != nil {
					started = *st.Start
					continue
				}
				var r recoverResult
				if json.Unmarshal(line, &r) == nil && r.Done {
					rr := r
					results[r.ID] = &rr
				}
			}
		}
		// which jobs are left?
		var next []recoverJob
		charged := false
		for _, j := range rest {
			if _, ok := results[j.ID]; ok {
				continue
			}
			if j.ID == started && !charged {
				charged = true
				st := eb.String()
				results[j.ID] = &recoverResult{ID: j.ID, died: !timedOut && !strings.Contains(st, "HANG job"), hung: timedOut || strings.Contains(st, "HANG job"), stderr: tail(st, 2500)}
				continue
			}
			next = append(next, j)
		}
		if len(next) == len(rest) {
			// no progress at all (worker could not even start): give up on the rest
			for _, j := range next {
				results[j.ID] = &recoverResult{ID: j.ID, hung: true, stderr: "batch worker made no progress: " + tail(eb.String(), 500)}
			}
			break
		}
		rest = next
	}
	return results
}

// judge applies the oracles to one recovered image. runs: what led to the image.
func judge(res *recoverResult, keysOf []vlib.Str, runs []crashlib.Run, followup []crashlib.WTxn, followAck []byte, classes map[string]bool) *finding {
	if res == nil {
		return nil
	}
	if res.hung {
		classes["recovery_hung_inconclusive"] = true
		return nil
	}
	if res.died {
		return &finding{"open_failed_after_crash", "the recovering process died: " + res.stderr}
	}
	if strings.HasPrefix(res.Panic, "harness:") {
		classes["harness_problem"] = true
		lastHarnessProblem = res.Panic
		return nil
	}
	if !res.Opened || res.Reads == nil {
		return &finding{"open_failed_after_crash", fmt.Sprintf("Open on the crash image did not succeed (during %s): %s", res.Where, tail(res.Panic, 1500))}
	}
	if res.Panic != "" && (res.Where == "open_again" || res.Where == "read_again") {
		return &finding{"open_failed_after_crash", fmt.Sprintf("the image was recovered, the handle given up without a commit or Close (a process dying right after recovery), and Open number %d on the directory did not succeed: %s", res.Again+2, tail(res.Panic, 1500))}
	}
	again := ""
	if res.Again > 0 {
		classes["recovered_again_without_commit"] = true
		again = fmt.Sprintf(" [state after %d recoveries in a row, the handle given up after each without a commit or Close]", res.Again+1)
	}
	al, inflight := crashlib.Expect(len(keysOf), runs)
	got := crashlib.Reads(res.Reads)
	if bad := crashlib.Judge(al, got, keysOf); len(bad) > 0 {
		return &finding{"acknowledged_write_lost_or_wrong", strings.Join(bad, "; ") + again}
	}
	if len(inflight) > 0 {
		classes["inflight_txn_at_crash"] = true
	}
	for _, t := range inflight {
		later := crashlib.LaterKeys(runs, t.No)
		prev := expectWithout(len(keysOf), runs, t.No)
		if len(t.Final()) >= 2 {
			classes["inflight_multi_key_txn"] = true
		}
		if m := crashlib.Atomicity(t, prev, later, got, keysOf); m != "" {
			return &finding{"partial_transaction", m}
		}
	}
	if len(followup) == 0 {
		return nil
	}
	// (d) the recovered store accepted the follow-up commits and retained them across Close + reopen
	if res.Panic != "" || !res.Followup {
		return &finding{"followup_failed_after_recovery", fmt.Sprintf("the recovered store did not complete the follow-up workload, Close and reopen (during %s): %s", res.Where, tail(res.Panic, 1500))}
	}
	if res.Reads2 == nil {
		return &finding{"open_failed_after_followup", "reopen after recovery + follow-up + Close did not produce reads: " + tail(res.Panic, 800)}
	}
	al2 := crashlib.Allowed{}
	for k := range keysOf {
		g, ok := got[k]
		if !ok {
			g = crashlib.Absent
		}
		al2[k] = map[string]bool{g: true}
	}
	al2, _ = crashlib.ExpectFrom(al2, []crashlib.Run{{Txns: followup, Ack: crashlib.ParseAck(followAck)}})
	if bad := crashlib.Judge(al2, crashlib.Reads(res.Reads2), keysOf); len(bad) > 0 {
		return &finding{"followup_not_retained", "after recovery, follow-up commits, Close and reopen: " + strings.Join(bad, "; ")}
	}
	classes["followup_verified"] = true
	return nil
}

func expectWithout(nkeys int, runs []crashlib.Run, no int) crashlib.Allowed {
	var rs []crashlib.Run
	for _, r := range runs {
		var ts []crashlib.WTxn
		for _, t := range r.Txns {
			if t.No != no {
				ts = append(ts, t)
			}
		}
		rs = append(rs, crashlib.Run{Txns: ts, Ack: r.Ack})
	}
	al, _ := crashlib.Expect(nkeys, rs)
	return al
}

func tail(s string, n int) string {
	if len(s) > n {
		return "..." + s[len(s)-n:]
	}
	return s
}

func scratchDir(t *testing.T) string {
	d := os.Getenv("VERIF_SCRATCH")
	if d == "" {
		d = t.TempDir()
	}
	return d
}

// ---- the pipeline -----------------------------------------------------------

type pipeline struct {
	prop     string
	rec      *vlib.Rec
	scratch  string
	thorough bool
}

// owned: which finding kinds the property under test owns on which kind of image.
func (p *pipeline) owned(f *finding, cut bool) bool {
	switch p.prop {
	case "C03":
		return !cut && f.kind != "partial_transaction"
	case "C04":
		return !cut && f.kind == "partial_transaction"
	case "C14":
		return cut && f.kind != "partial_transaction"
	}
	return false
}

func (p *pipeline) report(f *finding, r Replay, fatal func(string, ...any)) {
	cj := vlib.JSON(r)
	msg := fmt.Sprintf("%s [%s; image before op %d %s %s in phase %q%s; last ops %v]", f.msg, r.Origin, r.Meta.Seq, r.Meta.Op, r.Meta.Path, r.Meta.Phase, cutNote(r.Cut), r.Meta.LastOps)
	p.rec.Violation(f.kind, msg, cj, nil)
	fatal("%s: %s", f.kind, msg)
}

func cutNote(c string) string {
	if c == "" {
		return ""
	}
	return "; unsynced tail cut: " + c
}

type planned struct {
	job      recoverJob
	im       image
	runs     []crashlib.Run
	followup []crashlib.WTxn
	cut      string
	origin   string
	cls      map[string]bool
	nested   bool // this job runs under the interposer: its images are recovered in a second round
	uncutOf  int  // C14: id of the job for the same image without the cut (0 = none)
	variant  string
}

func replayRuns(runs []crashlib.Run) []replayRun {
	var o []replayRun
	for _, r := range runs {
		o = append(o, replayRun{Txns: r.Txns, Ack: r.Ack})
	}
	return o
}

func applyCuts(files map[string]string, cuts map[string]int64) map[string]string {
	out := map[string]string{}
	for n, b64 := range files {
		if l, ok := cuts[n]; ok {
			b, _ := base64.StdEncoding.DecodeString(b64)
			if int(l) < len(b) {
				b64 = base64.StdEncoding.EncodeToString(b[:l])
			}
		}
		out[n] = b64
	}
	return out
}

// runCase executes one generated case end to end.
func (p *pipeline) runCase(c Case, fatal func(string, ...any)) {
	base := filepath.Join(p.scratch, "case")
	_ = os.RemoveAll(base)
	_ = os.MkdirAll(base, 0o755)
	defer os.RemoveAll(base)
	dbDir := filepath.Join(base, "db")
	snapDir := filepath.Join(base, "snaps")
	ackPath := filepath.Join(base, "ack.log")
	maxSnaps := 3000
	if c.Huge {
		maxSnaps = 60
	}
	res := runChild(base, job{Mode: "run", Dir: dbDir, Workload: c.W, AckPath: ackPath, SnapDir: snapDir, MaxSnaps: maxSnaps}, 180*time.Second)
	ackAll, _ := os.ReadFile(ackPath)
	imgs := loadImages(snapDir)
	if res.timedOut {
		p.rec.Note("workload child timed out (inconclusive)")
		return
	}
	if res.exit != 0 && p.prop == "C03" {
		// the workload died without any injected fault
		f := &finding{"workload_died_without_fault", fmt.Sprintf("the workload process died without any injected fault (exit %d, signaled %v): %s", res.exit, res.signaled, tail(res.stderr, 1500))}
		p.report(f, Replay{Keys: c.W.Keys, Cfg: c.W.Cfg, Runs: []replayRun{{Txns: c.W.Txns, Ack: crashlib.ParseAck(ackAll)}}, Mode: p.prop, Origin: "workload"}, fatal)
		return
	}
	// quick tier: at most maxImages images per workload, evenly spread (every image in the thorough tier)
	stride := 1
	maxImages := vlib.IntEnv("VERIF_MAX_IMAGES", 0)
	if maxImages > 0 && len(imgs) > maxImages {
		stride = (len(imgs) + maxImages - 1) / maxImages
	}
	nestedAt := map[int]bool{}
	nNested := len(c.NestedAt)
	if !p.thorough {
		nNested = 2
	}
	for _, pm := range c.NestedAt[:nNested] {
		if len(imgs) > 0 {
			nestedAt[pm*len(imgs)/1000] = true
		}
	}
	var plan []*planned
	id := 0
	add := func(pl *planned) *planned {
		id++
		pl.job.ID = id
		pl.job.WorkDir = filepath.Join(base, "work")
		pl.job.Workload.Cfg, pl.job.Workload.Keys = c.W.Cfg, c.W.Keys
		if !pl.nested && !c.Huge && id%3 == 0 {
			pl.job.Again = 1 + id%2
		}
		plan = append(plan, pl)
		return pl
	}
	for i, im := range imgs {
		if i%stride != 0 && !nestedAt[i] {
			continue
		}
		run1 := crashlib.Run{Txns: c.W.Txns, Ack: crashlib.ParseAck(ackAll[:min64(im.meta.AckOff, int64(len(ackAll)))])}
		cls := map[string]bool{"crash_before_" + im.meta.Op + "_" + fileClass(im.meta.Path): true, "phase_" + im.meta.Phase: true}
		if c.Huge {
			cls["workload_with_multi_MiB_value"] = true
		}
		if c.Sweep {
			cls["workload_with_length_sweep"] = true
		}
		for n := range im.meta.Files {
			if fileClass(n) == "wal" {
				cls["image_with_wal"] = true
			}
		}
		switch p.prop {
		case "C03", "C04":
			pl := &planned{im: im, runs: []crashlib.Run{run1}, cls: cls, origin: "snapshot"}
			pl.job.SrcDir = im.dir
			if p.prop == "C03" && (p.thorough || (i/stride)%c.FollowEvery == 0) {
				pl.followup = c.Followup
				pl.job.Workload.Txns = c.Followup
				pl.job.AckPath = filepath.Join(base, fmt.Sprintf("fack-%d.log", id+1))
			}
			add(pl)
			if (p.prop == "C03" || p.prop == "C04") && nestedAt[i] && !c.Huge {
				n := &planned{im: im, runs: []crashlib.Run{run1}, cls: map[string]bool{}, origin: "snapshot", nested: true, followup: c.Followup}
				n.job.SrcDir = im.dir
				n.job.Workload.Txns = c.Followup
				n.job.AckPath = filepath.Join(base, fmt.Sprintf("nack-%d.log", id+1))
				n.job.SnapDir = filepath.Join(base, fmt.Sprintf("nsnaps-%d", id+1))
				n.job.MaxSnaps = 300
				add(n)
			}
		case "C14":
			if nestedAt[i] && !c.Huge {
				// crash again during the recovery of this image (uncut): the images of THAT recovery are cut below
				n := &planned{im: im, runs: []crashlib.Run{run1}, cls: map[string]bool{}, origin: "snapshot", nested: true, followup: c.Followup}
				n.job.SrcDir = im.dir
				n.job.Workload.Txns = c.Followup
				n.job.AckPath = filepath.Join(base, fmt.Sprintf("nack-%d.log", id+1))
				n.job.SnapDir = filepath.Join(base, fmt.Sprintf("nsnaps-%d", id+1))
				n.job.MaxSnaps = 300
				add(n)
			}
			for _, cut := range p.cuts(im, c.CutSeeds) {
				desc := ""
				ccls := map[string]bool{}
				for k, v := range cls {
					ccls[k] = v
				}
				var names []string
				for n := range cut {
					names = append(names, n)
				}
				sort.Strings(names)
				for _, n := range names {
					desc += fmt.Sprintf("%s %d->%d (synced %d) ", n, im.meta.Files[n].Written, cut[n], im.meta.Files[n].Synced)
					ccls["cut_"+fileClass(n)] = true
				}
				pl := &planned{im: im, runs: []crashlib.Run{run1}, cls: ccls, origin: "snapshot", cut: desc}
				pl.job.SrcDir = im.dir
				pl.job.Cuts = cut
				if len(plan)%c.FollowEvery == 0 {
					pl.followup = c.Followup
					pl.job.Workload.Txns = c.Followup
					pl.job.AckPath = filepath.Join(base, fmt.Sprintf("fack-%d.log", id+1))
				}
				add(pl)
			}
		}
	}
	var jobs []recoverJob
	for _, pl := range plan {
		jobs = append(jobs, pl.job)
	}
	results := runBatch(base, jobs)
	mkReplay := func(pl *planned, meta imageMeta, srcDir string, origin string) Replay {
		files := packDir(srcDir)
		if pl.job.Cuts != nil {
			files = applyCuts(files, pl.job.Cuts)
		}
		return Replay{Keys: c.W.Keys, Cfg: c.W.Cfg, Files: files, Followup: pl.followup, Meta: meta, Cut: pl.cut, Mode: p.prop, Origin: origin, Runs: replayRuns(pl.runs), Again: pl.job.Again}
	}
	for _, pl := range plan {
		r := results[pl.job.ID]
		if pl.nested {
			continue
		}
		var fack []byte
		if pl.job.AckPath != "" {
			fack, _ = os.ReadFile(pl.job.AckPath)
		}
		f := judge(r, c.W.Keys, pl.runs, pl.followup, fack, pl.cls)
		nontrivial := pl.cls["image_with_wal"] || pl.im.meta.Phase != "workload" || fileClass(pl.im.meta.Path) != "wal"
		if p.prop == "C04" {
			nontrivial = pl.cls["inflight_multi_key_txn"]
		}
		if p.prop == "C14" {
			nontrivial = true
		}
		p.rec.End(imgCase(c, pl.im.meta, pl.cut), nontrivial && f == nil, keys(pl.cls)...)
		if f == nil {
			continue
		}
		isCut := pl.cut != ""
		if !p.owned(f, isCut) {
			p.rec.Count("foreign_"+f.kind, 1)
			continue
		}
		if isCut {
			// C14's business only if the uncut image is fine
			un := &planned{im: pl.im, runs: pl.runs, cls: map[string]bool{}}
			un.job = recoverJob{ID: 1, SrcDir: pl.im.dir, WorkDir: filepath.Join(base, "work"), Workload: crashlib.Workload{Cfg: c.W.Cfg, Keys: c.W.Keys}, Again: pl.job.Again}
			ur := runBatch(base, []recoverJob{un.job})
			if g := judge(ur[1], c.W.Keys, pl.runs, nil, nil, map[string]bool{}); g != nil {
				p.rec.Count("foreign_uncut_image_already_fails", 1)
				continue
			}
		}
		p.report(f, mkReplay(pl, pl.im.meta, pl.im.dir, pl.origin), fatal)
		return
	}
	// crash sequences: every image of a recovery that itself ran under the interposer
	for _, pl := range plan {
		if !pl.nested {
			continue
		}
		ack2All, _ := os.ReadFile(pl.job.AckPath)
		imgs2 := loadImages(pl.job.SnapDir)
		var plan2 []*planned
		var jobs2 []recoverJob
		n := 0
		for _, im2 := range imgs2 {
			run2 := crashlib.Run{Txns: c.Followup, Ack: crashlib.ParseAck(ack2All[:min64(im2.meta.AckOff, int64(len(ack2All)))])}
			cls := map[string]bool{"crash_during_recovery": true, "nested_phase_" + im2.meta.Phase: true, "crash_before_" + im2.meta.Op + "_" + fileClass(im2.meta.Path): true}
			origin := fmt.Sprintf("crash during the recovery (+ follow-up) of the image before op %d of the workload", pl.im.meta.Seq)
			if p.prop == "C14" {
				for _, cut := range p.cuts(im2, c.CutSeeds[:2]) {
					desc := ""
					ccls := map[string]bool{"nested_cut": true}
					for k, v := range cls {
						ccls[k] = v
					}
					var names []string
					for nm := range cut {
						names = append(names, nm)
					}
					sort.Strings(names)
					for _, nm := range names {
						desc += fmt.Sprintf("%s %d->%d (synced %d) ", nm, im2.meta.Files[nm].Written, cut[nm], im2.meta.Files[nm].Synced)
						ccls["cut_"+fileClass(nm)] = true
					}
					q := &planned{im: im2, runs: []crashlib.Run{pl.runs[0], run2}, cls: ccls, origin: origin, cut: desc}
					q.job = recoverJob{ID: len(plan2) + 1, SrcDir: im2.dir, Cuts: cut, WorkDir: filepath.Join(base, "work"), Workload: crashlib.Workload{Cfg: c.W.Cfg, Keys: c.W.Keys}, Again: len(plan2) % 2}
					plan2 = append(plan2, q)
					jobs2 = append(jobs2, q.job)
				}
				continue
			}
			q := &planned{im: im2, runs: []crashlib.Run{pl.runs[0], run2}, cls: cls, origin: origin}
			q.job = recoverJob{ID: len(plan2) + 1, SrcDir: im2.dir, WorkDir: filepath.Join(base, "work"), Workload: crashlib.Workload{Cfg: c.W.Cfg, Keys: c.W.Keys}, Again: 1 + len(plan2)%2}
			plan2 = append(plan2, q)
			jobs2 = append(jobs2, q.job)
		}
		_ = n
		res2 := runBatch(base, jobs2)
		for _, q := range plan2 {
			f := judge(res2[q.job.ID], c.W.Keys, q.runs, nil, nil, q.cls)
			p.rec.End(imgCase(c, q.im.meta, q.origin), f == nil, keys(q.cls)...)
			if f == nil {
				continue
			}
			if !p.owned(f, q.cut != "") {
				p.rec.Count("foreign_"+f.kind, 1)
				continue
			}
			if q.cut != "" {
				// C14's business only if the same nested image passes without the cut
				uj := recoverJob{ID: 1, SrcDir: q.im.dir, WorkDir: filepath.Join(base, "work"), Workload: crashlib.Workload{Cfg: c.W.Cfg, Keys: c.W.Keys}, Again: q.job.Again}
				ur := runBatch(base, []recoverJob{uj})
				if g := judge(ur[1], c.W.Keys, q.runs, nil, nil, map[string]bool{}); g != nil {
					p.rec.Count("foreign_uncut_image_already_fails", 1)
					continue
				}
			}
			p.report(f, mkReplay(q, q.im.meta, q.im.dir, q.origin), fatal)
			return
		}
	}
	if lastHarnessProblem != "" {
		p.rec.Note(lastHarnessProblem)
		lastHarnessProblem = ""
	}
	p.rec.Count("workloads", 1)
	p.rec.Count("images_of_workload_runs", int64(len(imgs)))
	if p.prop == "C03" {
		p.kills(c, len(imgs), fatal)
	}
}

func min64(a, b int64) int64 {
	if a < b {
		return a
	}
	return b
}

func keys(m map[string]bool) []string {
	var o []string
	for k := range m {
		o = append(o, k)
	}
	sort.Strings(o)
	return o
}

func hashCase(c Case) string {
	h := sha256.Sum256(vlib.JSON(c.W))
	return hex.EncodeToString(h[:6])
}

// imgCase is the evidence record of one judged crash image.
func imgCase(c Case, m imageMeta, extra string) []byte {
	return vlib.JSON(map[string]any{"workload": hashCase(c), "txns": len(c.W.Txns), "cfg": c.W.Cfg, "crash_before_op": m.Seq, "op": m.Op,
		"file": m.Path, "phase": m.Phase, "ack_log_bytes": m.AckOff, "variant": extra})
}

// kills re-runs the workload with a real SIGKILL before the N-th operation (cross-check of the snapshot images).
func (p *pipeline) kills(c Case, nops int, fatal func(string, ...any)) {
	if nops == 0 {
		return
	}
	n := 2
	if p.thorough {
		n = len(c.KillAt)
	}
	for _, pm := range c.KillAt[:n] {
		at := 1 + pm*nops/1000
		base := filepath.Join(p.scratch, "kill")
		_ = os.RemoveAll(base)
		_ = os.MkdirAll(base, 0o755)
		dbDir := filepath.Join(base, "db")
		ackPath := filepath.Join(base, "ack.log")
		opLog := filepath.Join(base, "ops.log")
		res := runChild(base, job{Mode: "run", Dir: dbDir, Workload: c.W, AckPath: ackPath, KillAt: at, OpLog: opLog}, 120*time.Second)
		if !res.signaled {
			// the run had fewer operations this time (other schedule): nothing was killed
			_ = os.RemoveAll(base)
			continue
		}
		ackB, _ := os.ReadFile(ackPath)
		ops, _ := os.ReadFile(opLog)
		lines := strings.Split(strings.TrimSpace(string(ops)), "\n")
		meta := imageMeta{Seq: at, Phase: "killed"}
		if len(lines) > 0 {
			f := strings.Fields(lines[len(lines)-1])
			if len(f) >= 3 {
				meta.Op, meta.Path = f[1], f[2]
			}
			meta.LastOps = lines[max(0, len(lines)-6):]
		}
		runs := []crashlib.Run{{Txns: c.W.Txns, Ack: crashlib.ParseAck(ackB)}}
		fack := filepath.Join(base, "fack.log")
		j := recoverJob{ID: 1, SrcDir: dbDir, WorkDir: filepath.Join(base, "work"), Workload: crashlib.Workload{Cfg: c.W.Cfg, Keys: c.W.Keys, Txns: c.Followup}, AckPath: fack}
		rr := runBatch(base, []recoverJob{j})
		cls := map[string]bool{"real_sigkill": true, "crash_before_" + meta.Op + "_" + fileClass(meta.Path): true}
		fb, _ := os.ReadFile(fack)
		f := judge(rr[1], c.W.Keys, runs, c.Followup, fb, cls)
		p.rec.End(imgCase(c, meta, "real SIGKILL"), f == nil, keys(cls)...)
		if f != nil {
			if p.owned(f, false) {
				r := Replay{Keys: c.W.Keys, Cfg: c.W.Cfg, Files: packDir(dbDir), Followup: c.Followup, Meta: meta, Mode: p.prop, Origin: "sigkill", Runs: replayRuns(runs)}
				_ = os.RemoveAll(base)
				p.report(f, r, fatal)
				return
			}
			p.rec.Count("foreign_"+f.kind, 1)
		}
		_ = os.RemoveAll(base)
	}
}

// cuts: for every file with bytes written after its last completed fsync, lengths to cut it to.
func (p *pipeline) cuts(im image, seeds []int) []map[string]int64 {
	var names []string
	for n, fl := range im.meta.Files {
		if fl.Written > fl.Synced {
			names = append(names, n)
		}
	}
	sort.Strings(names)
	if len(names) == 0 {
		return nil
	}
	var out []map[string]int64
	// all-cut corner first
	all := map[string]int64{}
	for _, n := range names {
		all[n] = im.meta.Files[n].Synced
	}
	out = append(out, all)
	for _, n := range names {
		fl := im.meta.Files[n]
		tailLen := fl.Written - fl.Synced
		var lens []int64
		if tailLen <= 48 && p.thorough {
			for l := fl.Synced; l < fl.Written; l++ {
				lens = append(lens, l)
			}
		} else {
			cand := []int64{fl.Synced, fl.Synced + 1, fl.Synced + 7, fl.Synced + 8, fl.Synced + 9, fl.Written - 1, fl.Written - 2, fl.Written - 8, fl.Written - 9, fl.Synced + tailLen/2}
			ns := len(seeds)
			if !p.thorough {
				ns = 3
			}
			for _, s := range seeds[:ns] {
				cand = append(cand, fl.Synced+int64(s)*tailLen/1001)
			}
			seen := map[int64]bool{}
			for _, l := range cand {
				if l >= fl.Synced && l < fl.Written && !seen[l] {
					seen[l] = true
					lens = append(lens, l)
				}
			}
			sort.Slice(lens, func(i, j int) bool { return lens[i] < lens[j] })
		}
		for _, l := range lens {
			if len(names) == 1 && l == fl.Synced {
				continue // same as the all-cut corner
			}
			out = append(out, map[string]int64{n: l})
		}
	}
	return out
}

func crashTest(t *testing.T, prop string) {
	rec := vlib.For(prop, "Test"+prop)
	p := &pipeline{prop: prop, rec: rec, scratch: scratchDir(t), thorough: os.Getenv("VERIF_TIER") == "thorough"}
	if rc := vlib.ReplayCase(); rc != nil {
		var r Replay
		if err := json.Unmarshal(rc, &r); err != nil {
			t.Fatalf("bad replay case: %v", err)
		}
		src := filepath.Join(p.scratch, "replay-image")
		if err := unpackDir(r.Files, src); err != nil {
			t.Fatalf("cannot materialise the image: %v", err)
		}
		fack := filepath.Join(p.scratch, "replay-fack.log")
		_ = os.Remove(fack)
		j := recoverJob{ID: 1, SrcDir: src, WorkDir: filepath.Join(p.scratch, "replay-work"), Workload: crashlib.Workload{Cfg: r.Cfg, Keys: r.Keys, Txns: r.Followup}, AckPath: fack, Again: r.Again}
		rr := runBatch(p.scratch, []recoverJob{j})
		fb, _ := os.ReadFile(fack)
		f := judge(rr[1], r.Keys, r.runs(), r.Followup, fb, map[string]bool{})
		if f != nil {
			rec.Violation(f.kind, f.msg, rc, nil)
			t.Fatalf("%s: %s", f.kind, f.msg)
		}
		return
	}
	rapid.Check(t, func(rt *rapid.T) {
		c := genCase(rt, prop == "C04")
		rec.Begin(vlib.JSON(c))
		p.runCase(c, rt.Fatalf)
	})
}

func TestC03(t *testing.T) { crashTest(t, "C03") }
func TestC04(t *testing.T) { crashTest(t, "C04") }
func TestC14(t *testing.T) { crashTest(t, "C14") }
