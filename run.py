#!/usr/bin/env python3
"""Driver of the originium verification machinery (see DESIGN.md §3).

  run.py setup                     build everything once (offline)
  run.py check <ID> [--tier quick|thorough]
  run.py replay <ID> <path>
  run.py baseline-off              the repository's own suite, guard off

Exit codes of `check`/`replay`: 0 held, 1 violation (VIOLATION line printed),
2 inconclusive (harness/build problem, time budget).
"""
import hashlib
import json
import os
import re
import shutil
import signal
import subprocess
import sys
import time

VERIF = os.path.dirname(os.path.abspath(__file__))
HARNESS = os.path.join(VERIF, "harness")
REPO = "/repo"
sys.path.insert(0, os.path.join(VERIF, "drv"))

from checks_table import CHECKS, PROP_INDEX  # noqa: E402
import common  # noqa: E402


def main():
    if len(sys.argv) < 2:
        print(__doc__)
        return 2
    cmd = sys.argv[1]
    if cmd == "setup":
        return common.setup()
    if cmd == "baseline-off":
        return common.baseline_off()
    if cmd == "check":
        pid = sys.argv[2]
        tier = os.environ.get("VERIF_TIER", "quick")
        if "--tier" in sys.argv:
            tier = sys.argv[sys.argv.index("--tier") + 1]
        if pid not in CHECKS:
            print("unknown property", pid)
            return 2
        return common.run_check(pid, tier)
    if cmd == "replay":
        return common.run_replay(sys.argv[2], sys.argv[3])
    print(__doc__)
    return 2


if __name__ == "__main__":
    sys.exit(main())
